# Value representation of the symbolic Go executor.
#
#  int      : python int (normalised to the Go type's range) or z3 BitVecRef of the Go width
#  bool     : python bool or z3 BoolRef
#  string   : python tuple of byte values (int or BitVec(8)); length is concrete
#  float    : python float (concrete only)
#  pointer  : Ptr(cont, idx)  cont is a python list (memory container), idx an int or BitVec(64); nil = None
#  slice    : Slice(arr, off, len, cap); nil slice has arr None
#  array/struct values: python list (value semantics: copied on load/store)
#  tuple    : Tup(list)
#  iface    : Iface(tid, val); nil = None
#  map      : GoMap ; nil = None
#  chan     : Chan ; nil = None
#  func     : Closure(fid, bindings) ; nil = None
import z3


class Unsupported(Exception):
    pass


class PathEnd(Exception):
    def __init__(self, status, info=None):
        self.status = status
        self.info = info


class GoPanic(Exception):
    def __init__(self, kind, msg=""):
        self.kind = kind
        self.msg = msg


class Ptr:
    __slots__ = ("cont", "idx")

    def __init__(self, cont, idx):
        self.cont = cont
        self.idx = idx

    def __repr__(self):
        return "Ptr(%x,%s)" % (id(self.cont), self.idx)


class Slice:
    __slots__ = ("arr", "off", "len", "cap")

    def __init__(self, arr, off, ln, cap):
        self.arr = arr
        self.off = off
        self.len = ln
        self.cap = cap

    def __repr__(self):
        if self.arr is None:
            return "Slice(nil)"
        return "Slice(%x,%d,%d,%d)" % (id(self.arr), self.off, self.len, self.cap)


class Opaque:
    """byte slice of symbolic length whose contents are not tracked (size-accounting harnesses only):
    reads return fresh bytes, writes are dropped."""
    __slots__ = ("len",)

    def __init__(self, ln):
        self.len = ln

    def __repr__(self):
        return "Opaque(%s)" % (self.len,)


class Tup(list):
    pass


class Iface:
    __slots__ = ("tid", "val")

    def __init__(self, tid, val):
        self.tid = tid
        self.val = val

    def __repr__(self):
        return "Iface(%s,%r)" % (self.tid, self.val)


class GoMap:
    __slots__ = ("entries", "ktid", "vtid")

    def __init__(self, ktid, vtid):
        self.entries = []  # list of [key, val]
        self.ktid = ktid
        self.vtid = vtid


class Chan:
    __slots__ = ("cap", "buf", "closed", "sendq", "recvq", "etid", "name")

    def __init__(self, cap, etid):
        self.cap = cap
        self.buf = []
        self.closed = False
        self.sendq = []  # parked (goroutine, armindex, value)
        self.recvq = []  # parked (goroutine, armindex)
        self.etid = etid
        self.name = None


class Closure:
    __slots__ = ("fid", "bindings")

    def __init__(self, fid, bindings=()):
        self.fid = fid
        self.bindings = bindings

    def __repr__(self):
        return "Closure(%s)" % self.fid


class Poison:
    """value produced by an un-modelled extern during package initialisation"""
    __slots__ = ("why",)

    def __init__(self, why):
        self.why = why

    def __repr__(self):
        return "Poison(%s)" % self.why


class MapIter:
    __slots__ = ("items", "pos")

    def __init__(self, items):
        self.items = items
        self.pos = 0


def is_sym(v):
    return isinstance(v, z3.ExprRef)


def norm(v, bits, signed):
    """normalise python int to Go integer range"""
    v &= (1 << bits) - 1
    if signed and v >> (bits - 1):
        v -= 1 << bits
    return v


def to_bv(v, bits):
    if is_sym(v):
        return v
    return z3.BitVecVal(v, bits)


def simp(e):
    if is_sym(e):
        e = z3.simplify(e)
        if z3.is_bv_value(e):
            return e  # caller normalises
        if z3.is_true(e):
            return True
        if z3.is_false(e):
            return False
    return e


def bnot(a):
    if isinstance(a, bool):
        return not a
    return z3.Not(a)


def band(a, b):
    if isinstance(a, bool):
        return b if a else False
    if isinstance(b, bool):
        return a if b else False
    return z3.And(a, b)


def bor(a, b):
    if isinstance(a, bool):
        return True if a else b
    if isinstance(b, bool):
        return True if b else a
    return z3.Or(a, b)


def ite(c, a, b, bits=None):
    """if-then-else over scalar values (ints of width bits, or bools)"""
    if isinstance(c, bool):
        return a if c else b
    if a is b:
        return a
    if isinstance(a, bool) or isinstance(b, bool) or z3.is_bool(a) or z3.is_bool(b):
        if isinstance(a, bool):
            a = z3.BoolVal(a)
        if isinstance(b, bool):
            b = z3.BoolVal(b)
        return z3.If(c, a, b)
    if not is_sym(a) and not is_sym(b) and a == b:
        return a
    if bits is None:
        bits = a.size() if is_sym(a) else b.size()
    return z3.If(c, to_bv(a, bits), to_bv(b, bits))
