# Driver: builds the SSA dump from /repo's current tree + overlay harnesses, explores every
# harness with a pool of workers, replays witnesses/counterexamples natively.
import json
import os
import random
import shutil
import subprocess
import sys
import tempfile
import time
import traceback
import concurrent.futures as cf
import multiprocessing as mp

import z3

from .values import *
from . import exec as X
from . import builtins_  # noqa
from . import conc  # noqa
from . import intercepts as IC
from . import models  # noqa  (environment models register themselves)

REPO = os.environ.get("VERIF_REPO", "/repo")
VERIF = os.path.dirname(os.path.dirname(os.path.dirname(os.path.abspath(__file__))))
BIN = os.path.join(VERIF, "engine", "bin", "ssa2json")
GOENV = dict(os.environ, GOFLAGS="-mod=mod", GOPROXY="off", GOSUMDB="off", GOTOOLCHAIN="local")

RT_GO = r'''package %(pkg)s

import (
	"sync"
	"time"
)

// harness runtime (native build): values come from a tape so that a solver model replays exactly.
type vAssumeFail struct{}
type vAssertFail struct{ label string }
type vTapeEnd struct{}

var vTape []uint64
var vPos int
var vCovers []string

func vNext() uint64 {
	if vPos >= len(vTape) {
		panic(vTapeEnd{})
	}
	v := vTape[vPos]
	vPos++
	return v
}
func vByte() byte   { return byte(vNext()) }
func vBool() bool   { return vNext()&1 == 1 }
func vU16() uint16  { return uint16(vNext()) }
func vU32() uint32  { return uint32(vNext()) }
func vU64() uint64  { return vNext() }
func vI64() int64   { return int64(vNext()) }
func vInt(lo, hi int) int {
	if hi < lo {
		panic(vAssumeFail{})
	}
	v := int(vNext())
	if v > hi-lo {
		panic(vAssumeFail{})
	}
	return lo + v
}
func vRange(lo, hi int) int {
	v := int(int64(vNext()))
	if v < lo || v > hi {
		panic(vAssumeFail{})
	}
	return v
}
func vBytes(max int) []byte {
	n := int(vNext())
	if n > max {
		panic(vAssumeFail{})
	}
	b := make([]byte, n)
	for i := range b {
		b[i] = byte(vNext())
	}
	return b
}
func vBytesN(n int) []byte {
	b := make([]byte, n)
	for i := range b {
		b[i] = byte(vNext())
	}
	return b
}
func vAssume(b bool) {
	if !b {
		panic(vAssumeFail{})
	}
}
func vAssert(b bool, label string) {
	if !b {
		panic(vAssertFail{label})
	}
}
func vOpaque(max int) []byte {
	n := int(int64(vNext()))
	if n < 0 || n > max {
		panic(vAssumeFail{})
	}
	return make([]byte, n)
}

type vDoneSignal struct{}

var vDoneMu sync.Mutex
var vDoneVerdict string

// vDone records the verdict of the path (first call wins). Natively the code under test keeps
// running (it may be on another goroutine); the recorded verdict overrides the harness result.
func vDone(ok bool, label string) {
	vDoneMu.Lock()
	defer vDoneMu.Unlock()
	if vDoneVerdict == "" {
		if ok {
			vDoneVerdict = "true"
		} else {
			vDoneVerdict = "assert:" + label
		}
	}
}
func vFireTimer(t *time.Timer)                   {}
func vTimerLastReset(t *time.Timer) time.Duration { return -1 }
func vCover(label string)                        { vCovers = append(vCovers, label) }
func vNote(label string)  {}
func vYield()             {}
func vSettle()            { time.Sleep(30 * time.Millisecond) }
func vSymbolic() bool     { return false }
func vIte(c bool, a, b int) int {
	if c {
		return a
	}
	return b
}
func vAnd(a, b bool) bool { return a && b }
func vOr(a, b bool) bool  { return a || b }
func vEqBytes(a, b []byte) bool {
	if len(a) != len(b) {
		return false
	}
	for i := range a {
		if a[i] != b[i] {
			return false
		}
	}
	return true
}

var vThoroughFlag bool

func vThorough() bool { return vThoroughFlag }
'''

RT_TEST_GO = r'''package %(pkg)s

import (
	"encoding/json"
	"fmt"
	"os"
	"testing"
	"time"
)

var vHarnesses = map[string]func() bool{
%(table)s}

type vJob struct {
	H    string   `json:"h"`
	Tape []uint64 `json:"tape"`
}

func vRun(f func() bool, tape []uint64) (res string) {
	done := make(chan string, 1)
	go func() {
		defer func() {
			if r := recover(); r != nil {
				switch x := r.(type) {
				case vAssumeFail:
					done <- "assume"
				case vAssertFail:
					done <- "assert:" + x.label
				case vTapeEnd:
					done <- "tape-end"
				case vDoneSignal:
					done <- "true"
				default:
					done <- fmt.Sprintf("panic:%%v", r)
				}
			}
		}()
		vTape = tape
		vPos = 0
		vDoneVerdict = ""
		r := f()
		vDoneMu.Lock()
		v := vDoneVerdict
		vDoneMu.Unlock()
		if v != "" {
			done <- v
		} else if r {
			done <- "true"
		} else {
			done <- "false"
		}
	}()
	select {
	case r := <-done:
		return r
	case <-time.After(10 * time.Second):
		return "blocked"
	}
}

func TestVerifReplay(t *testing.T) {
	vThoroughFlag = os.Getenv("VERIF_TIER") == "thorough"
	data, err := os.ReadFile(os.Getenv("VERIF_TAPES"))
	if err != nil {
		t.Fatal(err)
	}
	var jobs []vJob
	if err := json.Unmarshal(data, &jobs); err != nil {
		t.Fatal(err)
	}
	out := make([]string, len(jobs))
	for i, j := range jobs {
		f := vHarnesses[j.H]
		if f == nil {
			out[i] = "no-such-harness"
			continue
		}
		out[i] = vRun(f, j.Tape)
	}
	b, _ := json.Marshal(out)
	if err := os.WriteFile(os.Getenv("VERIF_OUT"), b, 0644); err != nil {
		t.Fatal(err)
	}
}
'''


def go_pkg_name(path):
    for line in open(path):
        line = line.strip()
        if line.startswith("package "):
            return line.split()[1]
    raise RuntimeError("no package clause in " + path)


class Workspace:
    """temporary overlay tree: harness files + generated runtime files, mirrored onto /repo"""

    def __init__(self, harness_files, tier="quick"):
        self.tier = tier
        self.dir = tempfile.mkdtemp(prefix="verif_ws_")
        self.pkgdirs = {}  # rel pkg dir -> (pkgname, [harness names])
        hroot = os.path.join(VERIF, "harness")
        for hf in harness_files:
            rel = os.path.relpath(hf, hroot)
            dst = os.path.join(self.dir, "ov", rel)
            os.makedirs(os.path.dirname(dst), exist_ok=True)
            shutil.copy(hf, dst)
            pd = os.path.dirname(rel)
            pkg = go_pkg_name(hf)
            names = []
            for line in open(hf):
                if line.startswith("func VH_"):
                    names.append(line[5:line.index("(")])
            e = self.pkgdirs.setdefault(pd, (pkg, []))
            e[1].extend(names)
        for pd, (pkg, names) in self.pkgdirs.items():
            with open(os.path.join(self.dir, "ov", pd, "zz_verif_rt.go"), "w") as f:
                f.write(RT_GO % {"pkg": pkg})
        self.ov = os.path.join(self.dir, "ov")

    def dump(self, deny=None, extra_args=()):
        out = os.path.join(self.dir, "dump.json")
        pats = ["./" + pd if pd else "." for pd in self.pkgdirs]
        cmd = [BIN, "-repo", REPO, "-overlay", self.ov, "-o", out]
        if deny:
            cmd += ["-deny", ",".join(deny)]
        cmd += list(extra_args) + pats
        t0 = time.time()
        r = subprocess.run(cmd, env=GOENV, capture_output=True, text=True)
        if r.returncode != 0:
            raise RuntimeError("ssa2json failed:\n" + r.stderr[-4000:])
        self.dump_time = time.time() - t0
        with open(out) as f:
            return json.load(f)

    def native(self, pd, jobs, timeout=600):
        """run tapes natively: jobs = [(harness, tape)] -> list of result strings"""
        pkg, names = self.pkgdirs[pd]
        tdir = os.path.join(self.dir, "native")
        os.makedirs(tdir, exist_ok=True)
        testfile = os.path.join(tdir, (pd.replace("/", "_") or "root") + "_rt_test.go")
        with open(testfile, "w") as f:
            f.write(RT_TEST_GO % {"pkg": pkg, "table": "".join('\t"%s": %s,\n' % (n, n) for n in names)})
        rep = {}
        for root, _, files in os.walk(os.path.join(self.ov, pd)):
            for fn in files:
                if fn.endswith(".go"):
                    rep[os.path.join(REPO, pd, fn)] = os.path.join(root, fn)
            break
        rep[os.path.join(REPO, pd, "zz_verif_rt_test.go")] = testfile
        ovf = os.path.join(tdir, (pd.replace("/", "_") or "root") + "_overlay.json")
        with open(ovf, "w") as f:
            json.dump({"Replace": rep}, f)
        tapes = os.path.join(tdir, "tapes.json")
        outp = os.path.join(tdir, "out.json")
        with open(tapes, "w") as f:
            json.dump([{"h": h, "tape": t} for h, t in jobs], f)
        if os.path.exists(outp):
            os.unlink(outp)
        env = dict(GOENV, VERIF_TAPES=tapes, VERIF_OUT=outp, VERIF_TIER=self.tier)
        r = subprocess.run(["go", "test", "-vet=off", "-count=1", "-run", "^TestVerifReplay$", "-overlay", ovf, "./" + pd if pd else "."],
                           cwd=REPO, env=env, capture_output=True, text=True, timeout=timeout)
        if not os.path.exists(outp):
            return None, r.stdout[-3000:] + r.stderr[-3000:]
        return json.load(open(outp)), ""

    def save_replay(self, pd, harness, tape, dest):
        """write a self-contained replay bundle for a counterexample"""
        os.makedirs(dest, exist_ok=True)
        with open(os.path.join(dest, "tape.json"), "w") as f:
            json.dump({"pkgdir": pd, "harness": harness, "tape": tape}, f)

    def cleanup(self):
        shutil.rmtree(self.dir, ignore_errors=True)


# ------------------------------------------------------------------------------------------------
ZERO_OK_PKGS = {"sync", "sync/atomic"}
PROG = None
INIT = None
OPTS = None


def run_init(prog, pkgs, opts):
    ex = X.Executor(prog, IC.I, None, opts)
    ex.install_env()
    ex.globals = {}
    from .models import GLOBAL_OVERRIDES
    for name, gl in prog.globals.items():
        et = prog.types[gl["type"]]["elem"]
        if name in GLOBAL_OVERRIDES:
            ex.globals[name] = [GLOBAL_OVERRIDES[name]()]
        elif gl["pkg"] in prog.inits or gl["pkg"] in ZERO_OK_PKGS:
            ex.globals[name] = [prog.zero(et)]
        else:
            ex.globals[name] = [Poison("global %s of a package whose init is not executed" % name)]
    ex.init_mode = True
    ex.max_instrs = 50_000_000
    for pkg in pkgs:
        fid = prog.inits.get(pkg)
        if fid is None:
            continue
        g = ex.new_goroutine()
        ex.main = g
        ex.cur = g
        ex.enter(g, fid, [], (), None)
        ex.loop()
        ex.gs = []
    if opts.get("verbose"):
        for n in ex.notes:
            print("  " + n)
    return ex.globals


def explore_job(job):
    """worker: explore up to `budget` paths depth-first starting from prefix"""
    global OPTS
    fid, prefix, budget, OPTS = job
    out = []
    stack = [(prefix, None)]
    leftover = []
    t_end = time.time() + OPTS.get("job_seconds", 20)
    while stack:
        if len(out) >= budget or time.time() > t_end:
            leftover = [p for p, _ in stack]
            break
        p, seed = stack.pop()
        ex = X.Executor(PROG, IC.I, INIT, OPTS)
        ex.install_env()
        ex.seed_model = seed
        t0 = time.time()
        try:
            st = ex.run_path(fid, p)
        except Unsupported as e:
            st = {"status": "unsupported", "info": str(e) + " @ " + ex.where()}
        except RecursionError:
            st = {"status": "unsupported", "info": "python recursion"}
        except Exception as e:  # engine bug: never silently pass
            st = {"status": "engine-error", "info": "%s: %s\n%s @ %s" % (type(e).__name__, e, traceback.format_exc()[-1500:], ex.where() if ex.cur else "")}
        st["trace"] = ex.trace
        st["wall"] = time.time() - t0
        st["instrs"] = ex.stats.instrs
        st["queries"] = ex.stats.queries
        st["solver_time"] = ex.stats.solver_time
        st["unknown_q"] = ex.stats.unknown
        st["funcs"] = sorted(ex.used_funcs)
        st["icpts"] = sorted(ex.used_intercepts)
        st["cover"] = sorted(ex.cover)
        st["sched"] = ex.sched_points
        if ex.xq:
            st["xq"] = ex.xq
        if st["status"] == "ok" and OPTS.get("witness") and ex.pinned is None:
            # witness tape of this path for native validation
            if random.random() < OPTS.get("witness_rate", 1.0):
                if ex.model is not None:
                    st["witness"] = ex.model_tape(ex.model)
                elif ex.check() == z3.sat:
                    st["witness"] = ex.model_tape(ex.solver.model())
        out.append(st)
        for w in reversed(ex.newwork):
            stack.append(w)
    return out, leftover


def init_worker(seed):
    random.seed(seed + os.getpid())


class HarnessResult:
    def __init__(self, name):
        self.name = name
        self.paths = 0
        self.by_status = {}
        self.violations = []
        self.panics = []
        self.problems = []   # unsupported / unknown / unwind / engine-error
        self.cover = set()
        self.instrs = 0
        self.queries = 0
        self.solver_time = 0.0
        self.funcs = set()
        self.icpts = set()
        self.witnesses = []
        self.sched = 0
        self.wall = 0.0
        self.truncated = False
        self.stopped_early = False
        self.xq = []
        self.blocked = []

    def add(self, st):
        self.paths += 1
        s = st["status"]
        self.by_status[s] = self.by_status.get(s, 0) + 1
        self.instrs += st["instrs"]
        self.queries += st["queries"]
        self.solver_time += st["solver_time"]
        self.funcs.update(st["funcs"])
        self.icpts.update(st["icpts"])
        self.cover.update(st["cover"])
        self.sched += st["sched"]
        if s == "violation":
            info = st.get("info") or {}
            self.violations.append({"label": st.get("label") or info.get("label"), "tape": st.get("tape") or info.get("tape"),
                                    "where": info.get("where"), "trace": st["trace"]})
        elif s == "panic":
            self.panics.append({"kind": st["kind"], "msg": st["msg"], "where": st["where"], "func": st["func"],
                                "tape": st["tape"], "trace": st["trace"]})
        elif s == "blocked":
            info = st.get("info") or {}
            if isinstance(info, dict):
                self.blocked.append({"info": info.get("msg"), "tape": info.get("tape"), "trace": st["trace"]})
            else:
                self.blocked.append({"info": info, "tape": None, "trace": st["trace"]})
        elif s in ("unsupported", "unknown", "unwind", "engine-error", "tape-exhausted"):
            self.problems.append({"status": s, "info": st.get("info"), "trace": st["trace"]})
        if "xq" in st and len(self.xq) < OPTS.get("xcheck", 0):
            self.xq.extend(st["xq"][: OPTS.get("xcheck", 0) - len(self.xq)])
        if "witness" in st and len(self.witnesses) < OPTS.get("max_witnesses", 40):
            self.witnesses.append(st["witness"])


def explore(prog, init, fid, opts, pool, max_paths=200000, deadline=None):
    name = fid.rsplit(".", 1)[-1]
    res = HarnessResult(name)
    t0 = time.time()
    work = [[]]
    pending = set()
    nworkers = opts.get("workers", 16)
    while work or pending:
        while work and len(pending) < nworkers * 2:
            p = work.pop()
            budget = 1 if res.paths < nworkers * 2 else opts.get("job_budget", 25)
            pending.add(pool.submit(explore_job, (fid, p, budget, opts)))
        done, pending = cf.wait(pending, return_when=cf.FIRST_COMPLETED)
        for d in done:
            out, leftover = d.result()
            for st in out:
                res.add(st)
            work.extend(leftover)
        nviol = len(res.violations) + len(res.panics) + len(res.blocked)
        if res.paths >= max_paths or (deadline and time.time() > deadline) or nviol >= opts.get("stop_after_violations", 40):
            if (work or pending) and nviol < opts.get("stop_after_violations", 40):
                res.truncated = True
            res.stopped_early = bool(work or pending)
            for p in pending:
                p.cancel()
            cf.wait(pending)
            for d in pending:
                if d.done() and not d.cancelled():
                    out, leftover = d.result()
                    for st in out:
                        res.add(st)
            break
    res.wall = time.time() - t0
    return res


def make_pool(prog, init, opts, seed=0):
    global PROG, INIT, OPTS
    PROG, INIT, OPTS = prog, init, opts
    import gc
    gc.collect()
    gc.freeze()
    ctx = mp.get_context("fork")
    return cf.ProcessPoolExecutor(max_workers=opts.get("workers", 16), mp_context=ctx, initializer=init_worker, initargs=(seed,))
