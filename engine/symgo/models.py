# environment models (time, hashes, noise, protobuf, x509) register intercepts here
import z3
from .values import *
from .exec import Executor, ErrObj, OPERR, CallReq
from .intercepts import exact, pattern, vfunc, mkerr, gostr, I
from .builtins_ import slice_elems

# ------------------------------------------------------------------ globals of packages whose init is not executed
GLOBAL_OVERRIDES = {
    "net.ErrClosed": lambda: Iface(OPERR, ErrObj(-1, gostr("use of closed network connection"))),
    "context.Canceled": lambda: Iface(OPERR, ErrObj(-2, gostr("context canceled"))),
    "context.DeadlineExceeded": lambda: Iface(OPERR, ErrObj(-3, gostr("context deadline exceeded"))),
    "io.EOF": lambda: Iface(OPERR, ErrObj(-4, gostr("EOF"))),
    "io.ErrUnexpectedEOF": lambda: Iface(OPERR, ErrObj(-5, gostr("unexpected EOF"))),
    "io.ErrShortBuffer": lambda: Iface(OPERR, ErrObj(-6, gostr("short buffer"))),
}


# ------------------------------------------------------------------ time
# time.Time{wall uint64, ext int64, loc *Location} is modelled as
#   zero value      : wall=0, ext=0            (year 1; IsZero)
#   any other instant: wall=1, ext=nanoseconds since the Unix epoch (symbolic int64), loc=nil
# time.Now() returns non-decreasing instants in [0, 2^61). Instants before the epoch are outside the model.
def mktime(ns):
    return [1, ns, None]


def tns(t):
    if t[0] == 0:
        raise Unsupported("arithmetic on the zero time.Time")
    return t[1]


def tcmp(ex, op, a, b):
    """compare two model times; the zero time is before every other instant"""
    from .exec import compare_int
    za, zb = a[0] == 0, b[0] == 0
    if za or zb:
        ka, kb = (0 if za else 1), (0 if zb else 1)
        return {"<": ka < kb, ">": ka > kb, "==": ka == kb}[op]
    if op == "==":
        return ex.eq(a[1], b[1])
    return compare_int(op, a[1], b[1], 64, True)


@exact("time.Now")
def time_now(ex, g, fid, args):
    if ex.opts.get("concrete_time"):
        ex.now_conc = getattr(ex, "now_conc", 1_700_000_000_000_000_000) + 1_000_000
        return mktime(ex.now_conc)
    if ex.pinned is not None:
        raise Unsupported("time.Now in pinned mode")
    t = ex.havoc(64, "t")
    last = getattr(ex, "now_last", None)
    c = z3.And(t >= (last if last is not None else 1), t < (1 << 61))
    ex.assume(c)
    ex.now_last = t
    return mktime(t)


def i64(ex, op, a, b):
    from .exec import arith
    return arith(ex, op, a, b, 64, True)


@exact("(time.Time).Sub")
def time_sub(ex, g, fid, args):
    return i64(ex, "-", tns(args[0]), tns(args[1]))


@exact("time.Since")
def time_since(ex, g, fid, args):
    now = time_now(ex, g, fid, [])
    return i64(ex, "-", tns(now), tns(args[0]))


@exact("(time.Time).Add")
def time_add(ex, g, fid, args):
    return mktime(i64(ex, "+", tns(args[0]), args[1]))


@exact("(time.Time).Before")
def time_before(ex, g, fid, args):
    return tcmp(ex, "<", args[0], args[1])


@exact("(time.Time).After")
def time_after(ex, g, fid, args):
    return tcmp(ex, ">", args[0], args[1])


@exact("(time.Time).Equal")
def time_equal(ex, g, fid, args):
    return tcmp(ex, "==", args[0], args[1])


@exact("(time.Time).Compare")
def time_compare(ex, g, fid, args):
    lt = tcmp(ex, "<", args[0], args[1])
    gt = tcmp(ex, ">", args[0], args[1])
    return ite(lt, norm(-1, 64, True), ite(gt, 1, 0, 64), 64)


@exact("time.Unix")
def time_unix(ex, g, fid, args):
    sec, nsec = args
    if is_sym(sec) or sec != 0:
        if is_sym(sec) or is_sym(nsec):
            raise Unsupported("time.Unix with symbolic seconds")
        return mktime(sec * 1_000_000_000 + nsec)
    return mktime(nsec)


@exact("(time.Time).IsZero")
def time_iszero(ex, g, fid, args):
    return args[0][0] == 0


@exact("(time.Time).UnixNano")
def time_unixnano(ex, g, fid, args):
    return tns(args[0])


@exact("(time.Time).UTC", "(time.Time).Local", "(time.Time).Round", "(time.Time).Truncate")
def time_utc(ex, g, fid, args):
    return args[0]


@exact("(time.Duration).Milliseconds")
def dur_ms(ex, g, fid, args):
    d = args[0]
    if is_sym(d):
        raise Unsupported("symbolic Duration.Milliseconds (64-bit division)")
    return int(d / 1e6)


@exact("(time.Duration).Seconds")
def dur_s(ex, g, fid, args):
    d = args[0]
    if is_sym(d):
        raise Unsupported("symbolic Duration.Seconds")
    return d / 1e9


@exact("(time.Duration).String", "(time.Time).String")
def dur_string(ex, g, fid, args):
    return gostr("<time>")


# tickers / timers: never fire inside a harness (harnesses drive time explicitly)
@exact("time.NewTicker")
def time_newticker(ex, g, fid, args):
    ch = Chan(1, None)
    return Ptr([[ch, None, False]], 0)


@exact("(*time.Ticker).Stop", "(*time.Timer).Stop", "(*time.Ticker).Reset")
def ticker_stop(ex, g, fid, args):
    return False if "Timer" in fid else None


# ------------------------------------------------------------------ errgroup (sequential model: Go runs the closure immediately)
@exact("(*golang.org/x/sync/errgroup.Group).Go")
def eg_go(ex, g, fid, args):
    grp = args[0]
    st = ex.wg.setdefault(("eg", id(grp.cont), grp.idx), {"err": None})

    def then(res):
        if res is not None and st["err"] is None:
            st["err"] = res
        return None

    return CallReq(args[1], [], then)


@exact("(*golang.org/x/sync/errgroup.Group).Wait")
def eg_wait(ex, g, fid, args):
    grp = args[0]
    st = ex.wg.setdefault(("eg", id(grp.cont), grp.idx), {"err": None})
    return st["err"]


@exact("golang.org/x/sync/errgroup.WithContext")
def eg_withcontext(ex, g, fid, args):
    fn = ex.funcs[fid]
    rt = ex.types[fn["sig"]]["results"]
    et = ex.types[rt[0]]["elem"]
    return Tup([Ptr([ex.zero(et)], 0), args[0]])


@exact("runtime.GOMAXPROCS", "runtime.NumCPU")
def rt_gomaxprocs(ex, g, fid, args):
    return 1


@exact("runtime.Gosched")
def rt_gosched(ex, g, fid, args):
    return None
