# environment models (time, hashes, noise, protobuf, x509) register intercepts here
import z3
from .values import *
from .exec import Executor, ErrObj, OPERR, CallReq
from .intercepts import exact, pattern, vfunc, mkerr, gostr, I
from .builtins_ import slice_elems

# ------------------------------------------------------------------ globals of packages whose init is not executed
GLOBAL_OVERRIDES = {
    "net.ErrClosed": lambda: Iface(OPERR, ErrObj(-1, gostr("use of closed network connection"))),
    "context.Canceled": lambda: Iface(OPERR, ErrObj(-2, gostr("context canceled"))),
    "context.DeadlineExceeded": lambda: Iface(OPERR, ErrObj(-3, gostr("context deadline exceeded"))),
    "io.EOF": lambda: Iface(OPERR, ErrObj(-4, gostr("EOF"))),
    "io.ErrUnexpectedEOF": lambda: Iface(OPERR, ErrObj(-5, gostr("unexpected EOF"))),
    "io.ErrShortBuffer": lambda: Iface(OPERR, ErrObj(-6, gostr("short buffer"))),
}


# ------------------------------------------------------------------ time
# time.Time{wall uint64, ext int64, loc *Location} is modelled as
#   zero value      : wall=0, ext=0            (year 1; IsZero)
#   any other instant: wall=1, ext=nanoseconds since the Unix epoch (symbolic int64), loc=nil
# time.Now() returns non-decreasing instants in [0, 2^61). Instants before the epoch are outside the model.
def mktime(ns):
    return [1, ns, None]


def tns(t):
    if t[0] == 0:
        raise Unsupported("arithmetic on the zero time.Time")
    return t[1]


def tcmp(ex, op, a, b):
    """compare two model times; the zero time is before every other instant"""
    from .exec import compare_int
    za, zb = a[0] == 0, b[0] == 0
    if za or zb:
        ka, kb = (0 if za else 1), (0 if zb else 1)
        return {"<": ka < kb, ">": ka > kb, "==": ka == kb}[op]
    if op == "==":
        return ex.eq(a[1], b[1])
    return compare_int(op, a[1], b[1], 64, True)


@exact("time.Now")
def time_now(ex, g, fid, args):
    if ex.opts.get("concrete_time"):
        # 1 microsecond per call: several calls share one millisecond, as on a real machine
        ex.now_conc = getattr(ex, "now_conc", 1_700_000_000_000_000_000) + 1_000
        return mktime(ex.now_conc)
    if ex.pinned is not None:
        raise Unsupported("time.Now in pinned mode")
    t = ex.havoc(64, "t")
    last = getattr(ex, "now_last", None)
    c = z3.And(t >= (last if last is not None else 1), t < (1 << 61))
    ex.assume(c)
    ex.now_last = t
    return mktime(t)


def i64(ex, op, a, b):
    from .exec import arith
    return arith(ex, op, a, b, 64, True)


@exact("(time.Time).Sub")
def time_sub(ex, g, fid, args):
    return i64(ex, "-", tns(args[0]), tns(args[1]))


@exact("time.Since")
def time_since(ex, g, fid, args):
    now = time_now(ex, g, fid, [])
    return i64(ex, "-", tns(now), tns(args[0]))


@exact("(time.Time).Add")
def time_add(ex, g, fid, args):
    return mktime(i64(ex, "+", tns(args[0]), args[1]))


@exact("(time.Time).Before")
def time_before(ex, g, fid, args):
    return tcmp(ex, "<", args[0], args[1])


@exact("(time.Time).After")
def time_after(ex, g, fid, args):
    return tcmp(ex, ">", args[0], args[1])


@exact("(time.Time).Equal")
def time_equal(ex, g, fid, args):
    return tcmp(ex, "==", args[0], args[1])


@exact("(time.Time).Compare")
def time_compare(ex, g, fid, args):
    lt = tcmp(ex, "<", args[0], args[1])
    gt = tcmp(ex, ">", args[0], args[1])
    return ite(lt, norm(-1, 64, True), ite(gt, 1, 0, 64), 64)


@exact("time.Unix")
def time_unix(ex, g, fid, args):
    sec, nsec = args
    if is_sym(sec) or sec != 0:
        if is_sym(sec) or is_sym(nsec):
            raise Unsupported("time.Unix with symbolic seconds")
        return mktime(sec * 1_000_000_000 + nsec)
    return mktime(nsec)


@exact("(time.Time).IsZero")
def time_iszero(ex, g, fid, args):
    return args[0][0] == 0


@exact("(time.Time).UnixNano")
def time_unixnano(ex, g, fid, args):
    return tns(args[0])


@exact("(time.Time).UTC", "(time.Time).Local", "(time.Time).Round", "(time.Time).Truncate")
def time_utc(ex, g, fid, args):
    return args[0]


@exact("(time.Duration).Milliseconds")
def dur_ms(ex, g, fid, args):
    d = args[0]
    if is_sym(d):
        raise Unsupported("symbolic Duration.Milliseconds (64-bit division)")
    return int(d / 1e6)


@exact("(time.Duration).Seconds")
def dur_s(ex, g, fid, args):
    d = args[0]
    if is_sym(d):
        raise Unsupported("symbolic Duration.Seconds")
    return d / 1e9


@exact("(time.Duration).String", "(time.Time).String")
def dur_string(ex, g, fid, args):
    return gostr("<time>")


# tickers / timers: never fire inside a harness (harnesses drive time explicitly)
@exact("time.NewTicker")
def time_newticker(ex, g, fid, args):
    ch = Chan(1, None)
    return Ptr([[ch, None, False]], 0)


# time.AfterFunc: the callback is captured; harnesses fire it explicitly with vFireTimer(t)
@exact("time.AfterFunc")
def time_afterfunc(ex, g, fid, args):
    rt = ex.types[ex.funcs[fid]["sig"]]["results"]
    et = ex.types[rt[0]]["elem"]
    p = Ptr([ex.zero(et)], 0)
    ex.timers[id(p.cont)] = {"keep": p, "fn": args[1], "last": None, "stopped": False}
    return p


def timer_state(ex, p):
    if p is None:
        return None
    st = ex.timers.get(id(p.cont))
    if st is None:
        st = {"keep": p, "fn": None, "last": None, "stopped": False}
        ex.timers[id(p.cont)] = st
    return st


@exact("(*time.Timer).Reset")
def timer_reset(ex, g, fid, args):
    st = timer_state(ex, args[0])
    if st is not None:
        st["last"] = args[1]
        st["stopped"] = False
    return False


@exact("(*time.Timer).Stop")
def timer_stop(ex, g, fid, args):
    st = timer_state(ex, args[0])
    if st is not None:
        st["stopped"] = True
    return False


@vfunc("vFireTimer")
def v_firetimer(ex, g, fid, args):
    """runs the callback registered with time.AfterFunc for this *time.Timer (as the runtime would when it expires)"""
    st = timer_state(ex, args[0])
    if st is None or st["fn"] is None:
        raise Unsupported("vFireTimer on a timer not created by time.AfterFunc")
    return CallReq(st["fn"], [], lambda r: None)


@vfunc("vTimerLastReset")
def v_timerlastreset(ex, g, fid, args):
    """duration passed to the last Reset of this *time.Timer, -1 if never reset"""
    st = timer_state(ex, args[0])
    if st is None or st["last"] is None:
        return norm(-1, 64, True)
    return st["last"]


@exact("(*time.Ticker).Stop", "(*time.Ticker).Reset")
def ticker_stop(ex, g, fid, args):
    return False if "Timer" in fid else None


# ------------------------------------------------------------------ errgroup (sequential model: Go runs the closure immediately)
@exact("(*golang.org/x/sync/errgroup.Group).Go")
def eg_go(ex, g, fid, args):
    grp = args[0]
    st = ex.wg.setdefault(("eg", id(grp.cont), grp.idx), {"err": None, "live": 0})
    if "egconc" in ex.opts.get("stubs", ()):
        # concurrent model (//verif: stubs=egconc): the closure runs on its own goroutine
        st["live"] += 1
        ng = ex.new_goroutine()

        def done(res):
            if res is not None and st["err"] is None:
                st["err"] = res
            st["live"] -= 1
            from .intercepts import wake_retriers
            wake_retriers(ex)
            return None

        ex.enter(ng, args[1].fid, [], args[1].bindings, None, on_return=(done, None, None))
        return None

    def then(res):
        if res is not None and st["err"] is None:
            st["err"] = res
        return None

    return CallReq(args[1], [], then)


@exact("(*golang.org/x/sync/errgroup.Group).Wait")
def eg_wait(ex, g, fid, args):
    grp = args[0]
    st = ex.wg.setdefault(("eg", id(grp.cont), grp.idx), {"err": None, "live": 0})
    if st.get("live", 0) > 0:
        from .intercepts import park_retry
        park_retry(ex, g)
        return None
    return st["err"]


@exact("golang.org/x/sync/errgroup.WithContext")
def eg_withcontext(ex, g, fid, args):
    fn = ex.funcs[fid]
    rt = ex.types[fn["sig"]]["results"]
    et = ex.types[rt[0]]["elem"]
    return Tup([Ptr([ex.zero(et)], 0), args[0]])


@exact("runtime.GOMAXPROCS", "runtime.NumCPU")
def rt_gomaxprocs(ex, g, fid, args):
    return 1


@exact("runtime.Gosched")
def rt_gosched(ex, g, fid, args):
    return None


# ------------------------------------------------------------------ p2pke leaves: noise, protobuf, x509, hashes
# (trusted models, DESIGN.md 3.4). Results are "havoc": fresh symbols constrained only by the contract.
def hbytes(ex, n, kind="x"):
    arr = [ex.havoc(8, kind) for _ in range(n)]
    return Slice(arr, 0, n, n)


def fork_bool(ex):
    return ex.choose([True, True]) == 0


def hs_state(ex, p):
    key = (id(p.cont), p.idx)
    st = ex.hs.get(key)
    if st is None:
        st = {"n": 0, "cb": {}, "keep": p, "id": len(ex.hs) + 1}
        ex.hs[key] = st
    return st


def new_cs(ex, fn_fid, idx, tag):
    rt = ex.types[ex.funcs[fn_fid]["sig"]]["results"]
    et = ex.types[rt[idx]]["elem"]
    p = Ptr([ex.zero(et)], 0)
    ex.cs_tags[id(p.cont)] = (tag, p)
    return p


@exact("github.com/flynn/noise.NewHandshakeState")
def noise_new(ex, g, fid, args):
    rt = ex.types[ex.funcs[fid]["sig"]]["results"]
    et = ex.types[rt[0]]["elem"]
    p = Ptr([ex.zero(et)], 0)
    hs_state(ex, p)
    return Tup([p, None])


@exact("(*github.com/flynn/noise.HandshakeState).ChannelBinding")
def noise_cb(ex, g, fid, args):
    st = hs_state(ex, args[0])
    n = st["n"]
    if n not in st["cb"]:
        st["cb"][n] = [ex.havoc(8, "cb") for _ in range(2)] + [n, st["id"]]
    arr = list(st["cb"][n])
    return Slice(arr, 0, len(arr), len(arr))


@exact("(*github.com/flynn/noise.HandshakeState).ReadMessage")
def noise_read(ex, g, fid, args):
    st = hs_state(ex, args[0])
    out = args[1]
    if not fork_bool(ex):
        return Tup([Slice(None, 0, 0, 0), None, None, mkerr(ex, gostr("noise: read failed"))])
    st["n"] += 1
    from .builtins_ import go_append
    if st["n"] == 1:
        # first NN message: the payload travels in clear after the ephemeral key (modelled with a
        # zero-length key share), so the reader sees exactly the bytes that are on the wire
        pl = list(slice_elems(args[2]))
    else:
        maxp = ex.opts.get("noise_payload_max", 3)
        n = ex.choose([True] * (maxp + 1))
        pl = [ex.havoc(8, "np") for _ in range(n)]
    payload = go_append(ex, out if out.arr is not None else Slice([], 0, 0, 0), pl)
    cs1 = cs2 = None
    if st["n"] == 2:
        cs1 = new_cs(ex, fid, 1, st["id"] * 10 + 1)
        cs2 = new_cs(ex, fid, 2, st["id"] * 10 + 2)
    return Tup([payload, cs1, cs2, None])


@exact("(*github.com/flynn/noise.HandshakeState).WriteMessage")
def noise_write(ex, g, fid, args):
    st = hs_state(ex, args[0])
    out = args[1]
    st["n"] += 1
    from .builtins_ import go_append
    msg = go_append(ex, out if out.arr is not None else Slice([], 0, 0, 0), [ex.havoc(8, "nm") for _ in range(2)])
    cs1 = cs2 = None
    if st["n"] == 2:
        cs1 = new_cs(ex, fid, 1, st["id"] * 10 + 1)
        cs2 = new_cs(ex, fid, 2, st["id"] * 10 + 2)
    return Tup([msg, cs1, cs2, None])


@exact("(*github.com/flynn/noise.CipherState).Cipher")
def noise_cipher(ex, g, fid, args):
    p = args[0]
    if p is None:
        raise GoPanic("nil-deref", "Cipher() on nil CipherState")
    tag = ex.cs_tags.get(id(p.cont), (0, None))[0]
    for name in ex.funcs:
        if name.endswith(".vCipherFor"):
            return CallReq(Closure(name), [tag], lambda r: r)
    raise Unsupported("harness must define vCipherFor(tag int) noise.Cipher")


def functional_havoc(ex, table, key_parts, nbytes, nfresh, kind):
    """fresh output, equal to an earlier output whenever the inputs are equal"""
    out = [ex.havoc(8, kind) for _ in range(nfresh)] + [0] * (nbytes - nfresh)
    for (kp, o) in table:
        if len(kp) != len(key_parts):
            continue
        same = True
        for a, b in zip(kp, key_parts):
            if len(a) != len(b):
                same = False
                break
            same = band(same, ex.eq(tuple(a), tuple(b)))
            if same is False:
                break
        if same is False:
            continue
        eqo = ex.eq(tuple(o), tuple(out))
        if same is True:
            return list(o)
        ex.add_pc(z3.Implies(same, eqo))
        ex.model = None
    table.append((key_parts, out))
    return out


# blake2b XOF (used by the real createPreSig, which is executed): an object accumulating what is
# written; reading yields a functional havoc of the accumulated input (equal inputs => equal output).
class XofObj:
    def __init__(self):
        self.buf = []
        self.out = None
        self.pos = 0


@exact("golang.org/x/crypto/blake2b.NewXOF")
def blake2b_newxof(ex, g, fid, args):
    return Tup([Iface("op:xof", XofObj()), None])


@exact("op:xof.Write")
def xof_write(ex, g, fid, args):
    x = args[0]
    data = slice_elems(args[1])
    x.buf.extend(data)
    return Tup([len(data), None])


@exact("op:xof.Read")
def xof_read(ex, g, fid, args):
    x = args[0]
    p = args[1]
    if x.out is None:
        x.out = functional_havoc(ex, ex.hash_tables.setdefault("xof", []), [list(x.buf)], 64, 2, "ps")
    n = min(p.len, len(x.out) - x.pos)
    for k in range(n):
        p.arr[p.off + k] = x.out[x.pos + k]
    x.pos += n
    return Tup([n, None])


@exact("golang.org/x/crypto/blake2b.Sum256")
def blake2b_sum256(ex, g, fid, args):
    return functional_havoc(ex, ex.hash_tables.setdefault("blake2b", []), [slice_elems(args[0])], 32, 2, "h")


@pattern(r"^go\.brendoncarroll\.net/p2p/p/p2pke\.marshal$")
def p2pke_marshal(ex, g, fid, args):
    from .builtins_ import go_append
    out = args[0]
    return go_append(ex, out if out.arr is not None else Slice([], 0, 0, 0), [ex.havoc(8, "pb") for _ in range(2)])


def synkey(vals):
    return tuple(("s", v.get_id()) if is_sym(v) else v for v in vals)


@pattern(r"^go\.brendoncarroll\.net/p2p/p/p2pke\.unmarshal$")
def p2pke_unmarshal(ex, g, fid, args):
    x = args[1]          # proto.Message interface holding *InitHello / *RespHello / *InitDone
    p = x.val
    st = p.cont[p.idx]
    # parsing is a function of the bytes: the same bytes parse to the same message (or error)
    ck = ("pb", x.tid, synkey(slice_elems(args[0])))
    hit = ex.fn_cache.get(ck)
    if hit is not None:
        if hit == "err":
            return mkerr(ex, gostr("proto: cannot parse"))
        for k, v in hit.items():
            st[k] = Slice(list(v), 0, len(v), len(v)) if isinstance(v, list) else v
        return None
    if not fork_bool(ex):
        ex.fn_cache[ck] = "err"
        return mkerr(ex, gostr("proto: cannot parse"))
    rec = {}
    ex.fn_cache[ck] = rec
    ex.fn_keep.append(args[0])
    t = ex.types[ex.types[x.tid]["elem"]]
    for k, f in enumerate(t["fields"]):
        if not f["name"][:1].isupper():
            continue
        ft = ex.types[f["type"]]
        if ft["kind"] == "slice":
            if f["name"] == "TimestampTai64N":
                n = 12 if fork_bool(ex) else 3
            else:
                n = 2
            st[k] = hbytes(ex, n, "pf")
            rec[k] = list(st[k].arr)
        elif ft["kind"] == "int":
            st[k] = ex.havoc(ft["bits"], "pv")
            rec[k] = st[k]
    return None


def harness_global(ex, suffix):
    for name in ex.prog.globals:
        if name.endswith(suffix):
            return ex.load(Ptr(ex.globals[name], 0))
    return None


@exact("go.brendoncarroll.net/p2p/f/x509.ParsePublicKey")
def x509_parse(ex, g, fid, args):
    rt = ex.types[ex.funcs[fid]["sig"]]["results"]
    zero = ex.zero(rt[0])
    ck = ("x509", synkey(slice_elems(args[0])))
    hit = ex.fn_cache.get(ck)
    if hit is not None:
        if hit == "err":
            return Tup([zero, mkerr(ex, gostr("asn1: syntax error"))])
        key = copy_struct(zero)
        key[0] = copy_struct(hit[0])
        key[1] = Slice(list(hit[1]), 0, 1, 1)
        return Tup([key, None])
    if not fork_bool(ex):
        ex.fn_cache[ck] = "err"
        return Tup([zero, mkerr(ex, gostr("asn1: syntax error"))])
    algo = harness_global(ex, ".vAlgo")
    if algo is None:
        raise Unsupported("harness must define var vAlgo oids.OID for the x509.ParsePublicKey model")
    if not fork_bool(ex):
        algo = [gostr("unregistered-algorithm")]
    key = copy_struct(zero)
    key[0] = algo
    key[1] = hbytes(ex, 1, "pk")
    ex.fn_cache[ck] = (copy_struct(algo), list(key[1].arr))
    ex.fn_keep.append(args[0])
    return Tup([key, None])


def copy_struct(v):
    from .exec import copyval
    return copyval(v)


@exact("go.brendoncarroll.net/p2p/f/x509.MarshalPublicKey")
def x509_marshal(ex, g, fid, args):
    # opaque bytes, but a function of the key (algorithm and data): equal keys marshal equally
    from .builtins_ import go_append
    out = args[0]
    key = ex.load(args[1])
    data = slice_elems(key[1]) if isinstance(key[1], Slice) else []
    enc = functional_havoc(ex, ex.hash_tables.setdefault("x509marshal", []), [list(key[0][0]), list(data)], 2, 2, "mk")
    return go_append(ex, out if out.arr is not None else Slice([], 0, 0, 0), enc)


@exact("golang.org/x/crypto/sha3.Sum256")
def sha3_sum256(ex, g, fid, args):
    return functional_havoc(ex, ex.hash_tables.setdefault("sha3-256", []), [slice_elems(args[0])], 32, 2, "h3")


@exact("golang.org/x/crypto/sha3.ShakeSum256")
def sha3_shakesum256(ex, g, fid, args):
    dst = args[0]
    out = functional_havoc(ex, ex.hash_tables.setdefault("shake256", []), [slice_elems(args[1]), [dst.len]], dst.len, 2, "hk")
    for k in range(dst.len):
        dst.arr[dst.off + k] = out[k]
    return None


@pattern(r"^go\.uber\.org/zap\.(Any|String|Error|Int|Uint32|Uint8|Bool|Duration|Time|Stringer|Binary)$")
def zap_field(ex, g, fid, args):
    rt = ex.types[ex.funcs[fid]["sig"]]["results"]
    return ex.zero(rt[0])


def install_p2pke(ex):
    ex.hs = {}
    ex.cs_tags = {}
    ex.hash_tables = {}
    ex.timers = {}
    ex.fn_cache = {}
    ex.fn_keep = []


_old_install = Executor.install_env


def _install(ex):
    _old_install(ex)
    install_p2pke(ex)


Executor.install_env = _install


# ------------------------------------------------------------------ strings.Builder (uses unsafe): plain byte buffer in field buf
def _sb_buf(p):
    st = p.cont[p.idx]
    return st


@exact("(*strings.Builder).Write", "(*strings.Builder).WriteString")
def sb_write(ex, g, fid, args):
    from .builtins_ import go_append
    st = _sb_buf(args[0])
    data = list(args[1]) if isinstance(args[1], tuple) else slice_elems(args[1])
    cur = st[1] if isinstance(st[1], Slice) and st[1].arr is not None else Slice([], 0, 0, 0)
    st[1] = go_append(ex, cur, data)
    return Tup([len(data), None])


@exact("(*strings.Builder).WriteByte")
def sb_writebyte(ex, g, fid, args):
    from .builtins_ import go_append
    st = _sb_buf(args[0])
    cur = st[1] if isinstance(st[1], Slice) and st[1].arr is not None else Slice([], 0, 0, 0)
    st[1] = go_append(ex, cur, [args[1]])
    return None


@exact("(*strings.Builder).String")
def sb_string(ex, g, fid, args):
    st = _sb_buf(args[0])
    return tuple(slice_elems(st[1])) if isinstance(st[1], Slice) else ()


@exact("(*strings.Builder).Len")
def sb_len(ex, g, fid, args):
    st = _sb_buf(args[0])
    return st[1].len if isinstance(st[1], Slice) else 0


@exact("(*strings.Builder).Grow", "(*strings.Builder).Reset")
def sb_grow(ex, g, fid, args):
    if fid.endswith("Reset"):
        _sb_buf(args[0])[1] = Slice(None, 0, 0, 0)
    return None


# ------------------------------------------------------------------ p2pke.Channel as a contract (only for the p2pkeswarm glue, //verif: stubs=channel)
from .intercepts import exact_if

CH = "go.brendoncarroll.net/p2p/p/p2pke."


def chan_state(ex, p):
    key = id(p.cont)
    st = ex.chans.get(key)
    if st is None:
        st = {"keep": p, "key": None, "cfg": None, "sent": 0}
        ex.chans[key] = st
    return st


@exact_if("channel", CH + "NewChannel")
def ch_new(ex, g, fid, args):
    rt = ex.types[ex.funcs[fid]["sig"]]["results"]
    et = ex.types[rt[0]]["elem"]
    p = Ptr([ex.zero(et)], 0)
    st = chan_state(ex, p)
    st["cfg"] = args[0]
    ex.chan_order.append(p)
    return p


@exact_if("channel", "(*" + CH + "Channel).Deliver")
def ch_deliver(ex, g, fid, args):
    k = ex.choose([True, True, True])
    if k == 0:
        return Tup([Slice(None, 0, 0, 0), None])
    if k == 1:
        return Tup([Slice(None, 0, 0, 0), mkerr(ex, gostr("channel: fatal"))])
    return Tup([hbytes(ex, 1, "cd"), None])


@exact_if("channel", "(*" + CH + "Channel).RemoteKey")
def ch_remotekey(ex, g, fid, args):
    st = chan_state(ex, args[0])
    rt = ex.types[ex.funcs[fid]["sig"]]["results"]

    def mk():
        key = ex.zero(rt[0])
        algo = harness_global(ex, ".vAlgo")
        key[0] = algo if algo is not None else key[0]
        key[1] = Slice([st["key"]], 0, 1, 1)
        return key

    if st["key"] is not None:
        return mk()
    st["key"] = ex.havoc(8, "rk")
    # Channel contract (C05): the channel's remote key satisfies the AcceptKey predicate it was given
    cfg = st["cfg"]
    if cfg is None:
        return mk()
    t = ex.types[ex.funcs[CH + "NewChannel"]["params"][0]]
    fi = [n for n, f in enumerate(t["fields"]) if f["name"] == "AcceptKey"][0]
    clo = cfg[fi]

    def then(res):
        ex.assume(res)
        return mk()

    return CallReq(clo, [Ptr([mk()], 0)], then)


@exact_if("channel", "(*" + CH + "Channel).WaitReady")
def ch_waitready(ex, g, fid, args):
    # the caller's context eventually expires: after 3 successful waits every further wait fails
    ex.chan_waits = getattr(ex, "chan_waits", 0) + 1
    if ex.chan_waits <= 3 and fork_bool(ex):
        return None
    return mkerr(ex, gostr("channel: not ready"))


@exact_if("channel", "(*" + CH + "Channel).Send")
def ch_send(ex, g, fid, args):
    st = chan_state(ex, args[0])
    st["sent"] += 1
    ex.events.append(("chan-send", id(args[0].cont)))
    return None


@exact_if("channel", "(*" + CH + "Channel).Close", "(*" + CH + "Channel).LastReceived", "(*" + CH + "Channel).LastSent")
def ch_misc(ex, g, fid, args):
    rt = ex.types[ex.funcs[fid]["sig"]]["results"]
    return ex.zero(rt[0]) if rt else None


@vfunc("vChanSends")
def v_chansends(ex, g, fid, args):
    """number of Send calls on the stubbed channel"""
    return chan_state(ex, args[0])["sent"]


@vfunc("vChanAccept")
def v_chanaccept(ex, g, fid, args):
    """calls the AcceptKey predicate the glue configured for the stubbed channel with key byte k"""
    st = chan_state(ex, args[0])
    cfg = st["cfg"]
    t = ex.types[ex.funcs[CH + "NewChannel"]["params"][0]]
    fi = [n for n, f in enumerate(t["fields"]) if f["name"] == "AcceptKey"][0]
    clo = cfg[fi]
    kt = None
    for n, f in enumerate(t["fields"]):
        if f["name"] == "PrivateKey":
            kt = f["type"]
    pub = ex.zero(kt)   # PrivateKey and PublicKey share the layout {Algorithm, Data}
    algo = harness_global(ex, ".vAlgo")
    pub[0] = algo if algo is not None else pub[0]
    pub[1] = Slice([args[1]], 0, 1, 1)
    return CallReq(clo, [Ptr([pub], 0)], lambda r: r)


_old_install2 = Executor.install_env


def _install2(ex):
    _old_install2(ex)
    ex.chans = {}
    ex.chan_order = []


Executor.install_env = _install2


# ------------------------------------------------------------------ sync.Map: association list with (possibly symbolic) key equality
def smap(ex, p):
    key = id(p.cont)
    m = ex.smaps.get(key)
    if m is None:
        m = {"keep": p, "entries": []}
        ex.smaps[key] = m
    return m


def smap_find(ex, m, k):
    for n, (kk, vv) in enumerate(m["entries"]):
        e = ex.eq(kk, k)
        if e is True or (e is not False and ex.branch(e)):
            return n
    return -1


@exact("(*sync.Map).Load")
def smap_load(ex, g, fid, args):
    m = smap(ex, args[0])
    n = smap_find(ex, m, args[1])
    if n < 0:
        return Tup([None, False])
    return Tup([m["entries"][n][1], True])


@exact("(*sync.Map).Store")
def smap_store(ex, g, fid, args):
    m = smap(ex, args[0])
    n = smap_find(ex, m, args[1])
    if n < 0:
        m["entries"].append([args[1], args[2]])
    else:
        m["entries"][n][1] = args[2]
    return None


@exact("(*sync.Map).LoadOrStore")
def smap_loadorstore(ex, g, fid, args):
    m = smap(ex, args[0])
    n = smap_find(ex, m, args[1])
    if n < 0:
        m["entries"].append([args[1], args[2]])
        return Tup([args[2], False])
    return Tup([m["entries"][n][1], True])


@exact("(*sync.Map).Delete")
def smap_delete(ex, g, fid, args):
    m = smap(ex, args[0])
    n = smap_find(ex, m, args[1])
    if n >= 0:
        del m["entries"][n]
    return None


@exact("(*sync.Map).LoadAndDelete")
def smap_loadanddelete(ex, g, fid, args):
    m = smap(ex, args[0])
    n = smap_find(ex, m, args[1])
    if n < 0:
        return Tup([None, False])
    v = m["entries"][n][1]
    del m["entries"][n]
    return Tup([v, True])


_old_install3 = Executor.install_env


def _install3(ex):
    _old_install3(ex)
    ex.smaps = {}


Executor.install_env = _install3
