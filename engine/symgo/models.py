# environment models (time, hashes, noise, protobuf, x509) register intercepts here
