# goroutines, channels, select: two-phase (arrive / park / claim) semantics mirroring the Go runtime.
import z3
from .values import *
from .exec import copyval, Closure, Builtin


class Waiter:
    __slots__ = ("g", "arm", "val", "send")

    def __init__(self, g, arm, val, send):
        self.g = g
        self.arm = arm
        self.val = val
        self.send = send


def maybe_yield(ex, g, fr):
    """context-switch point before a visible operation. Returns True if another goroutine was
    scheduled instead (the instruction is re-executed when g runs again)."""
    if getattr(g, "yielded", False):
        g.yielded = False
        return False
    runnable = [x for x in ex.gs if x.status == "run" and x.stack]
    if len(runnable) <= 1:
        return False
    if ex.opts.get("no_preempt"):
        return False
    pb = ex.opts.get("preempt_bound")
    if pb is not None and ex.preemptions >= pb:
        return False
    # order: current goroutine first so that the first explored schedule is the sequential one
    runnable.remove(g)
    runnable.insert(0, g)
    k = ex.choose([True] * len(runnable))
    ex.sched_points += 1
    if k == 0:
        return False
    ex.preemptions += 1
    g.yielded = True
    fr.ii -= 1
    ex.cur = runnable[k]
    return True


def op_go(ex, g, fr, i):
    call = i["call"]
    args = [ex.val(fr, a) for a in call["args"]]
    ng = ex.new_goroutine()
    if call.get("invoke"):
        recv = ex.val(fr, call["recv"])
        if recv is None:
            raise GoPanic("nil-deref", "go invoke on nil")
        fid, fvs = ex.method(recv, call["method"])
        ex.enter(ng, fid, [recv.val] + args, fvs, None)
        return
    fnv = ex.val(fr, call["fn"])
    if isinstance(fnv, Builtin):
        raise Unsupported("go builtin")
    ex.call_closure(ng, fnv, args, None)


def arm_ready(arm):
    send, c, val = arm
    if c is None:
        return False
    if send:
        return c.closed or bool(c.recvq) or len(c.buf) < c.cap
    return bool(c.buf) or bool(c.sendq) or c.closed


def unpark(ex, w, arm, val, ok):
    """complete the parked operation of goroutine w with arm/val/ok"""
    for c in w.wait["chans"]:
        c.sendq = [x for x in c.sendq if x.g is not w]
        c.recvq = [x for x in c.recvq if x.g is not w]
    fin = w.wait["finish"]
    w.wait = None
    w.status = "run"
    w.yielded = False
    fin(arm, val, ok)


def exec_arm(ex, g, k, arm, zero_of):
    """perform ready arm; returns (val, ok)"""
    send, c, val = arm
    if send:
        if c.closed:
            raise GoPanic("send-on-closed-channel")
        if c.recvq:
            w = c.recvq[0]
            unpark(ex, w.g, w.arm, val, True)
        else:
            c.buf.append(val)
        return None, False
    if c.buf:
        v = c.buf.pop(0)
        if c.sendq:
            w = c.sendq[0]
            c.buf.append(w.val)
            unpark(ex, w.g, w.arm, None, False)
        return v, True
    if c.sendq:
        w = c.sendq[0]
        v = w.val
        unpark(ex, w.g, w.arm, None, False)
        return v, True
    # closed
    return zero_of(c), False


def do_select(ex, g, fr, arms, blocking, finish):
    """arms: list of (send, chan, val); finish(armindex, val, ok) stores results into fr"""
    if maybe_yield(ex, g, fr):
        return
    ready = [k for k, a in enumerate(arms) if arm_ready(a)]

    def zero_of(c):
        return ex.zero(c.etid) if c.etid is not None else None

    if ready:
        if len(ready) > 1:
            k = ready[ex.choose([True] * len(ready))]
        else:
            k = ready[0]
        v, ok = exec_arm(ex, g, k, arms[k], zero_of)
        finish(k, v, ok)
        return
    if not blocking:
        finish(-1, None, False)
        return
    chans = []
    for k, (send, c, val) in enumerate(arms):
        if c is None:
            continue
        w = Waiter(g, k, val, send)
        (c.sendq if send else c.recvq).append(w)
        if c not in chans:
            chans.append(c)
    g.status = "parked"
    g.wait = {"chans": chans, "finish": finish, "where": ex.where(g)}


def op_select(ex, g, fr, i):
    arms = []
    for st in i["states"]:
        c = ex.val(fr, st["chan"])
        v = ex.val(fr, st["val"]) if st["send"] else None
        arms.append((st["send"], c, v))
    nrecv = [k for k, st in enumerate(i["states"]) if not st["send"]]
    reg = i["reg"]
    states = i["states"]
    tt = ex.types[i["type"]]["elems"]

    def finish(k, v, ok):
        res = [k, ok]
        for n, ak in enumerate(nrecv):
            if ak == k:
                res.append(v)
            else:
                res.append(ex.zero(tt[2 + n]))
        fr.regs[reg] = Tup(res)

    do_select(ex, g, fr, arms, i["blocking"], finish)


def op_send(ex, g, fr, i):
    c = ex.val(fr, i["chan"])
    v = ex.val(fr, i["x"])

    def finish(k, val, ok):
        pass

    do_select(ex, g, fr, [(True, c, v)], True, finish)


def op_recv(ex, g, fr, i, c):
    reg = i["reg"]
    commaok = i["commaok"]

    def finish(k, val, ok):
        fr.regs[reg] = Tup([val, ok]) if commaok else val

    do_select(ex, g, fr, [(False, c, None)], True, finish)


def close_chan(ex, g, c):
    if c is None:
        raise GoPanic("close-of-nil-channel")
    if c.closed:
        raise GoPanic("close-of-closed-channel")
    c.closed = True
    if c.sendq:
        raise GoPanic("send-on-closed-channel")
    woke = bool(c.recvq)
    for w in list(c.recvq):
        unpark(ex, w.g, w.arm, ex.zero(c.etid) if c.etid is not None else None, False)
    if woke:
        # the woken goroutines may run before the closer's next instruction (real preemption):
        # offer a context switch right after the close
        g.force_yield = True


def yield_now(ex, g):
    """context switch offered between two instructions of g (nothing to re-execute)"""
    runnable = [x for x in ex.gs if x.status == "run" and x.stack]
    if len(runnable) <= 1 or ex.opts.get("no_preempt"):
        return False
    pb = ex.opts.get("preempt_bound")
    if pb is not None and ex.preemptions >= pb:
        return False
    if g in runnable:
        runnable.remove(g)
        runnable.insert(0, g)
    k = ex.choose([True] * len(runnable))
    ex.sched_points += 1
    if k == 0:
        return False
    ex.preemptions += 1
    ex.cur = runnable[k]
    return True
