# Path-forking symbolic executor for go/ssa (JSON dump produced by engine/frontend).
# Exploration is by re-execution: each path is run from the start following a
# decision prefix; alternatives found at new decision points are returned as
# new prefixes. See DESIGN.md section 3.
import sys
import time
import z3

from .values import *

U64 = (1 << 64) - 1


class Frame:
    __slots__ = ("fid", "fn", "blocks", "bi", "ii", "prev", "regs", "params", "fvs",
                 "defers", "ret_reg", "visits", "on_return", "want")

    def __init__(self, fid, fn, params, fvs, ret_reg):
        self.fid = fid
        self.fn = fn
        self.blocks = fn["blocks"]
        self.bi = 0
        self.ii = 0
        self.prev = -1
        self.regs = {}
        self.params = params
        self.fvs = fvs
        self.defers = []
        self.ret_reg = ret_reg
        self.visits = {}
        self.on_return = None


class Goroutine:
    def __init__(self, gid):
        self.gid = gid
        self.stack = []
        self.status = "run"  # run | parked | done
        self.wait = None     # select descriptor while parked
        self.wake = None     # (armindex, value, ok) set by the partner that completed our operation
        self.locks = None
        self.name = "g%d" % gid
        self.result = None
        self.force_yield = False
        self.yielded = False


class Builtin:
    def __init__(self, name):
        self.name = name


class ErrObj:
    """opaque error created by errors.New / fmt.Errorf / pkg/errors"""
    __slots__ = ("site", "msg", "cause")

    def __init__(self, site, msg, cause=None):
        self.site = site
        self.msg = msg
        self.cause = cause

    def __repr__(self):
        return "Err(%s)" % (self.msg,)


OPERR = "op:error"


class Program:
    def __init__(self, dump):
        self.types = dump["types"]
        self.funcs = dump["funcs"]
        self.globals = dump["globals"]
        self.roots = dump["roots"]
        self.inits = dump["inits"]
        for t in self.types:
            if "alias" in t:
                pass
        self._prep()

    def _prep(self):
        T = self.types
        for fid, fn in self.funcs.items():
            fn["id"] = fid
            if fn.get("extern"):
                continue
            for b in fn["blocks"]:
                ins = b["instrs"]
                nphi = 0
                for i in ins:
                    if i["op"] == "Phi":
                        nphi += 1
                    else:
                        break
                b["nphi"] = nphi
                for i in ins:
                    self._prep_instr(i)

    def _prep_ref(self, r):
        if r is None:
            return None
        if r[0] == "c":
            try:
                return ("k", self.const(r[1], r[2]))
            except Unsupported as e:
                return ("bad", str(e))
        return tuple(r)

    def _prep_instr(self, i):
        for k in ("x", "y", "cond", "index", "addr", "val", "low", "high", "max", "len", "cap", "size",
                  "map", "key", "value", "iter", "chan", "fn"):
            if k in i and (isinstance(i[k], list) or i[k] is None):
                i[k] = self._prep_ref(i[k])
        for k in ("edges", "results", "bindings"):
            if k in i:
                i[k] = [self._prep_ref(r) for r in i[k]]
        if "call" in i:
            c = i["call"]
            c["args"] = [self._prep_ref(r) for r in c["args"]]
            if "fn" in c:
                c["fn"] = self._prep_ref(c["fn"])
            if "recv" in c:
                c["recv"] = self._prep_ref(c["recv"])
        if "states" in i:
            for st in i["states"]:
                st["chan"] = self._prep_ref(st["chan"])
                st["val"] = self._prep_ref(st["val"])

    def kind(self, tid):
        return self.types[tid]["kind"]

    def const(self, tid, v):
        t = self.types[tid]
        k = t["kind"]
        if v is None:
            return self.zero(tid)
        if k == "int":
            if isinstance(v, str) and v.startswith("i:"):
                return norm(int(v[2:]), t["bits"], t["signed"])
            raise Unsupported("const int %r" % (v,))
        if k == "bool":
            return bool(v)
        if k == "string":
            return tuple(bytes.fromhex(v[2:]))
        if k == "float":
            if v.startswith("i:"):
                return float(int(v[2:]))
            if v.startswith("f:"):
                return float(v[2:])
            if v.startswith("x:"):
                s = v[2:]
                if "/" in s:
                    a, b = s.split("/")
                    return int(a) / int(b)
                return float(s)
        raise Unsupported("const %s %r" % (k, v))

    def zero(self, tid):
        t = self.types[tid]
        k = t["kind"]
        if k == "int":
            return 0
        if k == "bool":
            return False
        if k == "string":
            return ()
        if k == "float":
            return 0.0
        if k == "slice":
            return Slice(None, 0, 0, 0)
        if k in ("ptr", "map", "chan", "func", "iface", "unsafeptr", "nil"):
            return None
        if k == "array":
            return [self.zero(t["elem"]) for _ in range(t["len"])]
        if k == "struct":
            return [self.zero(f["type"]) for f in t["fields"]]
        if k == "tuple":
            return Tup(self.zero(e) for e in t["elems"])
        raise Unsupported("zero of kind %s" % k)


def select_chain(cont, idx, bits):
    """ite chain for cont[idx]; concrete tables use their most common value as the default arm"""
    n = len(cont)
    if n > 8 and not any(is_sym(e) for e in cont):
        cnt = {}
        for e in cont:
            cnt[e] = cnt.get(e, 0) + 1
        dflt = max(cnt, key=cnt.get)
        res = dflt
        for i in range(n - 1, -1, -1):
            if cont[i] != dflt:
                res = ite(idx == i, cont[i], res, bits)
        return res
    res = cont[n - 1]
    for i in range(n - 2, -1, -1):
        res = ite(idx == i, cont[i], res, bits)
    return res


def copyval(v):
    if type(v) is list:
        return [copyval(x) for x in v]
    return v


def assign_into(dst, src):
    for i, s in enumerate(src):
        if type(s) is list and type(dst[i]) is list:
            assign_into(dst[i], s)
        else:
            dst[i] = copyval(s)


def clone_heap(root, memo=None):
    """deep copy of a heap graph preserving sharing/identity"""
    if memo is None:
        memo = {}

    def c(v):
        if v is None or isinstance(v, (int, float, bool, str)):
            return v
        tv = type(v)
        if tv is tuple:
            return v
        i = id(v)
        if i in memo:
            return memo[i]
        if tv is list or tv is Tup:
            n = tv()
            memo[i] = n
            n.extend(c(x) for x in v)
            return n
        if tv is Ptr:
            n = Ptr(None, v.idx)
            memo[i] = n
            n.cont = c(v.cont)
            return n
        if tv is Slice:
            n = Slice(None, v.off, v.len, v.cap)
            memo[i] = n
            n.arr = c(v.arr)
            return n
        if tv is Iface:
            n = Iface(v.tid, None)
            memo[i] = n
            n.val = c(v.val)
            return n
        if tv is GoMap:
            n = GoMap(v.ktid, v.vtid)
            memo[i] = n
            n.entries = [[c(k), c(x)] for k, x in v.entries]
            return n
        if tv is Closure:
            n = Closure(v.fid, None)
            memo[i] = n
            n.bindings = tuple(c(b) for b in v.bindings)
            return n
        if tv is Chan:
            n = Chan(v.cap, v.etid)
            memo[i] = n
            n.buf = [c(x) for x in v.buf]
            n.closed = v.closed
            return n
        if tv is dict:
            n = {}
            memo[i] = n
            for k, x in v.items():
                n[k] = c(x)
            return n
        if tv is ErrObj:
            n = ErrObj(v.site, v.msg, None)
            memo[i] = n
            n.cause = c(v.cause)
            return n
        return v  # z3 terms, Poison, Builtin...

    return c(root)


class LazyGlobals(dict):
    """per-path copy-on-access view of the initialised globals (sharing preserved through one memo)"""

    def __init__(self, base):
        dict.__init__(self)
        self.base = base
        self.memo = {}

    def __missing__(self, name):
        v = clone_heap(self.base[name], self.memo)
        self[name] = v
        return v


class Stats:
    def __init__(self):
        self.queries = 0
        self.solver_time = 0.0
        self.instrs = 0
        self.unknown = 0
        self.cache_hits = 0


class Executor:
    """executes ONE path (given a decision prefix) of one harness"""

    def __init__(self, prog, intercepts, init_globals, opts):
        self.prog = prog
        self.types = prog.types
        self.funcs = prog.funcs
        self.icpt = intercepts
        self.opts = opts
        self.globals = LazyGlobals(init_globals) if init_globals is not None else None
        self.solver = z3.SolverFor("QF_BV") if opts.get("qfbv", True) else z3.Solver()
        self.solver.set("timeout", opts.get("branch_timeout_ms", 20000))
        self.model = None
        self.seed_model = None
        self.known = {}
        self.pc = []
        self.prefix = []
        self.trace = []
        self.newwork = []
        self.tape = []          # (kind, value) in v* call order
        self.nsym = 0
        self.cover = set()
        self.stats = Stats()
        self.unwind = opts.get("unwind", 16)
        self.max_instrs = opts.get("max_instrs", 3_000_000)
        self.gs = []
        self.cur = None
        self.init_mode = False
        self.pinned = None      # list of concrete tape values for translator validation
        self.pinpos = 0
        self.asserts_failed = []  # (label, model-tape)
        self.events = []
        self.errsite = 0
        self.used_intercepts = set()
        self.used_funcs = set()
        self.hash_log = []
        self.sched_points = 0
        self.preemptions = 0
        self.xq = []
        self.notes = []

    # ---------------------------------------------------------------- solver
    def check(self, extra=None):
        t0 = time.time()
        self.stats.queries += 1
        if extra is not None:
            self.solver.push()
            self.solver.add(extra)
        r = self.solver.check()
        self.last_model = self.solver.model() if r == z3.sat else None
        if extra is not None:
            self.solver.pop()
        self.stats.solver_time += time.time() - t0
        if r == z3.unknown:
            self.stats.unknown += 1
        return r

    def add_pc(self, c):
        if c is True:
            return
        self.pc.append(c)
        self.solver.add(c)
        self.note_fact(c, True)

    def note_fact(self, c, val):
        """remember that the path condition implies c == val (syntactic cache keyed by AST id)"""
        self.known[c.get_id()] = (c, val)
        if z3.is_not(c):
            a = c.arg(0)
            self.known[a.get_id()] = (a, not val)

    def choose(self, conds, exhaustive=False, tag=None):
        pos = len(self.trace)
        if pos < len(self.prefix):
            k = self.prefix[pos]
            self.trace.append(k)
            self.add_pc(conds[k])
            if pos + 1 == len(self.prefix):
                self.model = self.seed_model
            return k
        feas = []
        models = {}
        n = len(conds)
        m = self.model
        for k, c in enumerate(conds):
            if c is True:
                feas.append(k)
                models[k] = m
            elif c is False:
                continue
            elif m is not None and z3.is_true(m.eval(c, model_completion=True)):
                feas.append(k)
                models[k] = m
                self.stats.cache_hits += 1
            elif exhaustive and k == n - 1 and not feas:
                feas.append(k)
            elif self.check(c) != z3.unsat:
                feas.append(k)
                models[k] = self.last_model
            else:
                self.note_fact(c, False)
        if not feas:
            raise PathEnd("infeasible")
        k = feas[0]
        self.model = models.get(k)
        for alt in feas[1:]:
            self.newwork.append((self.trace + [alt], models.get(alt)))
        self.trace.append(k)
        self.add_pc(conds[k])
        return k

    def branch(self, cond):
        """decide a symbolic boolean; forks"""
        if isinstance(cond, bool):
            return cond
        cond = simp(cond)
        if isinstance(cond, bool):
            return cond
        if len(self.trace) >= len(self.prefix):
            kn = self.known.get(cond.get_id())
            if kn is not None:
                self.stats.cache_hits += 1
                self.trace.append(0 if kn[1] else 1)
                return kn[1]
        nc = z3.Not(cond)
        r = self.choose([cond, nc], exhaustive=True) == 0
        return r

    def concretize(self, v, lo, hi, bits=64):
        """fork on every feasible value of v in [lo,hi] (unsigned); values outside are not considered.
        The decision record is the value itself; feasible values are enumerated by model blocking."""
        if not is_sym(v):
            return v
        v = simp(v)
        if z3.is_bv_value(v):
            return v.as_long()
        pos = len(self.trace)
        w = v.size()
        if pos < len(self.prefix):
            val = self.prefix[pos]
            self.trace.append(val)
            self.add_pc(v == z3.BitVecVal(val, w))
            if pos + 1 == len(self.prefix):
                self.model = self.seed_model
            return val
        vals = []
        vmodels = {}
        m = self.model
        if m is not None:
            mv = m.eval(v, model_completion=True).as_long()
            if lo <= mv <= hi:
                vals.append(mv)
                vmodels[mv] = m
        self.solver.push()
        self.solver.add(z3.ULE(z3.BitVecVal(lo, w), v), z3.ULE(v, z3.BitVecVal(hi, w)))
        for x in vals:
            self.solver.add(v != z3.BitVecVal(x, w))
        limit = self.opts.get("max_concretize", 300)
        try:
            while True:
                r = self.check()
                if r != z3.sat:
                    if r == z3.unknown:
                        raise PathEnd("unknown", "solver unknown while enumerating values at " + self.where())
                    break
                x = self.last_model.eval(v, model_completion=True).as_long()
                vals.append(x)
                vmodels[x] = self.last_model
                if len(vals) > limit:
                    raise PathEnd("unwind", "more than %d feasible values for a size/index at %s" % (limit, self.where()))
                self.solver.add(v != z3.BitVecVal(x, w))
        finally:
            self.solver.pop()
        if not vals:
            raise PathEnd("infeasible")
        vals.sort()
        for alt in vals[1:]:
            self.newwork.append((self.trace + [alt], vmodels.get(alt)))
        val = vals[0]
        self.trace.append(val)
        self.add_pc(v == z3.BitVecVal(val, w))
        self.model = vmodels.get(val)
        return val

    def assume(self, c):
        if isinstance(c, bool):
            if not c:
                raise PathEnd("assume")
            return
        c = simp(c)
        if isinstance(c, bool):
            return self.assume(c)
        if len(self.trace) < len(self.prefix):
            self.add_pc(c)   # replaying a known-feasible prefix
            return
        if self.model is not None and z3.is_true(self.model.eval(c, model_completion=True)):
            self.add_pc(c)
            return
        if self.check(c) == z3.unsat:
            raise PathEnd("assume")
        self.model = self.last_model
        self.add_pc(c)

    # ---------------------------------------------------------------- symbols
    def fresh(self, kind, bits):
        if self.pinned is not None:
            if self.pinpos >= len(self.pinned):
                raise PathEnd("tape-exhausted")
            v = self.pinned[self.pinpos] & ((1 << bits) - 1)
            self.pinpos += 1
            self.tape.append((kind, v))
            return v
        s = z3.BitVec("%s%d" % (kind, self.nsym), bits)
        self.nsym += 1
        self.tape.append((kind, s))
        return s

    def fresh_choice(self, n, kind="n"):
        """an n-way forked concrete choice recorded on the tape"""
        if self.pinned is not None:
            if self.pinpos >= len(self.pinned):
                raise PathEnd("tape-exhausted")
            v = self.pinned[self.pinpos]
            self.pinpos += 1
            if v >= n:
                raise PathEnd("assume")
            self.tape.append((kind, v))
            return v
        k = self.choose([True] * n)
        self.tape.append((kind, k))
        return k

    def havoc(self, bits, kind="h"):
        """fresh symbol NOT on the tape (engine-level stub result)"""
        if self.pinned is not None:
            raise Unsupported("havoc in pinned mode")
        s = z3.BitVec("%s%d" % (kind, self.nsym), bits)
        self.nsym += 1
        return s

    # ---------------------------------------------------------------- types
    def T(self, tid):
        return self.types[tid]

    def zero(self, tid):
        return self.prog.zero(tid)

    # ---------------------------------------------------------------- values
    def val(self, fr, r):
        tag = r[0]
        if tag == "r":
            return fr.regs[r[1]]
        if tag == "k":
            v = r[1]
            if type(v) is list:
                return copyval(v)
            return v
        if tag == "p":
            return fr.params[r[1]]
        if tag == "v":
            return fr.fvs[r[1]]
        if tag == "g":
            return Ptr(self.globals[r[1]], 0)
        if tag == "f":
            return Closure(r[1])
        if tag == "b":
            return Builtin(r[1])
        if tag == "bad":
            if self.init_mode:
                return Poison(r[1])
            raise Unsupported(r[1])
        raise Unsupported("ref %r" % (r,))

    def load(self, p):
        if p is None:
            raise GoPanic("nil-deref")
        if isinstance(p, Poison):
            return p
        idx = p.idx
        if type(idx) is int:
            v = p.cont[idx]
            if type(v) is list:
                return copyval(v)
            return v
        raise Unsupported("untyped load through symbolic index")

    def load_typed(self, p, tid):
        """load with known element type (needed for symbolic index into concrete tables)"""
        if p is None:
            raise GoPanic("nil-deref")
        if isinstance(p, Poison):
            return p
        idx = p.idx
        if type(idx) is int:
            v = p.cont[idx]
            if type(v) is list:
                return copyval(v)
            return v
        t = self.types[tid]
        cont = p.cont
        n = len(cont)
        if t["kind"] == "int":
            bits = t["bits"]
            return select_chain(cont, idx, bits)
        if t["kind"] == "bool":
            res = cont[n - 1]
            for i in range(n - 2, -1, -1):
                res = ite(idx == i, cont[i], res)
            return res
        k = self.concretize(idx, 0, n - 1)
        v = cont[k]
        return copyval(v) if type(v) is list else v

    def store(self, p, v, tid=None):
        if p is None:
            raise GoPanic("nil-deref")
        if isinstance(p, Poison):
            if self.init_mode:
                return
            raise Unsupported("store through poison pointer: " + p.why)
        idx = p.idx
        cont = p.cont
        if type(idx) is not int:
            n = len(cont)
            if type(v) is list or isinstance(v, (Slice, Ptr, Iface, tuple, GoMap, Chan, Closure)) or v is None:
                idx = self.concretize(idx, 0, n - 1)
            else:
                bits = None
                if tid is not None and self.types[tid]["kind"] == "int":
                    bits = self.types[tid]["bits"]
                elif not isinstance(v, bool) and not (is_sym(v) and z3.is_bool(v)):
                    raise Unsupported("store through symbolic index without element type")
                for i in range(n):
                    cont[i] = ite(idx == i, v, cont[i], bits)
                return
        if type(v) is list and type(cont[idx]) is list:
            assign_into(cont[idx], v)
        else:
            cont[idx] = copyval(v)

    # equality of Go values -> bool or z3 Bool
    def eq(self, a, b):
        if isinstance(a, Poison) or isinstance(b, Poison):
            raise Unsupported("compare poison")
        if a is None or b is None:
            if isinstance(a, Slice):
                return a.arr is None
            if isinstance(b, Slice):
                return b.arr is None
            return a is None and b is None
        ta = type(a)
        if ta is int or ta is bool or is_sym(a) or ta is float:
            if is_sym(a) or is_sym(b):
                if isinstance(a, bool):
                    a = z3.BoolVal(a)
                if isinstance(b, bool):
                    b = z3.BoolVal(b)
                return simp(a == b)
            return a == b
        if ta is tuple:  # string
            if len(a) != len(b):
                return False
            r = True
            for x, y in zip(a, b):
                r = band(r, self.eq(x, y))
                if r is False:
                    return False
            return simp(r)
        if ta is list or ta is Tup:
            r = True
            for x, y in zip(a, b):
                r = band(r, self.eq(x, y))
                if r is False:
                    return False
            return simp(r)
        if ta is Ptr:
            if not isinstance(b, Ptr):
                return False
            if a.cont is not b.cont:
                return False
            return self.eq(a.idx, b.idx)
        if ta is Iface:
            if not isinstance(b, Iface):
                return False
            if a.tid != b.tid:
                return False
            if a.tid == OPERR:
                return a.val is b.val
            k = self.types[a.tid]["kind"] if isinstance(a.tid, int) else None
            if k in ("slice", "map", "func"):
                raise GoPanic("uncomparable")
            return self.eq(a.val, b.val)
        if ta is Slice:
            if isinstance(b, Slice):
                if a.arr is None:
                    return b.arr is None
                if b.arr is None:
                    return False
            raise Unsupported("slice compare")
        return a is b

    # ---------------------------------------------------------------- running
    def new_goroutine(self):
        g = Goroutine(len(self.gs))
        self.gs.append(g)
        return g

    def enter(self, g, fid, args, fvs, ret_reg, on_return=None):
        """call function fid in goroutine g"""
        fn = self.funcs.get(fid)
        if fn is not None and fn.get("pkginit"):
            self.deliver_result(g, None, ret_reg, on_return)
            return
        ic = self.icpt.lookup(fid)
        if ic is None and fid in self.icpt.cond:
            flag, f = self.icpt.cond[fid]
            if flag in self.opts.get("stubs", ()):
                ic = f
        if ic is not None:
            self.used_intercepts.add(ic.__name__)
            res = ic(self, g, fid, args)
            if isinstance(res, CallReq):
                self.enter(g, res.fid, res.args, res.fvs, None, on_return=(res.then, ret_reg, on_return))
                return
            self.deliver_result(g, res, ret_reg, on_return)
            return
        fn = self.funcs.get(fid)
        if fn is None:
            raise Unsupported("unknown function " + fid)
        if fn.get("extern"):
            if fn.get("pkginit"):
                self.deliver_result(g, None, ret_reg, on_return)
                return
            if self.init_mode:
                self.deliver_result(g, Poison(fid), ret_reg, on_return)
                return
            raise Unsupported("extern function not modelled: " + fid)
        self.used_funcs.add(fid)
        fr = Frame(fid, fn, args, fvs, ret_reg)
        fr.on_return = on_return
        if len(g.stack) > 200:
            raise PathEnd("unwind", "recursion depth")
        g.stack.append(fr)

    def deliver_result(self, g, res, ret_reg, on_return):
        """result of a completed call goes to the caller frame (top of g.stack)"""
        if on_return is not None:
            then, rr, outer = on_return
            res2 = then(res)
            if isinstance(res2, CallReq):
                self.enter(g, res2.fid, res2.args, res2.fvs, None, on_return=(res2.then, rr, outer))
                return
            self.deliver_result(g, res2, rr, outer)
            return
        if ret_reg is not None and g.stack:
            g.stack[-1].regs[ret_reg] = res
        elif not g.stack:
            g.result = res

    def call_closure(self, g, clo, args, ret_reg, on_return=None):
        if clo is None:
            raise GoPanic("nil-func-call")
        if isinstance(clo, Poison):
            if self.init_mode:
                return self.deliver_result(g, Poison("call " + clo.why), ret_reg, on_return)
            raise Unsupported("call of poison func")
        self.enter(g, clo.fid, args, clo.bindings, ret_reg, on_return)

    def do_call(self, g, fr, call, ret_reg):
        args = [self.val(fr, a) for a in call["args"]]
        if call.get("invoke"):
            recv = self.val(fr, call["recv"])
            if isinstance(recv, Poison):
                if self.init_mode:
                    return self.deliver_result(g, Poison("invoke " + recv.why), ret_reg, None)
                raise Unsupported("invoke on poison")
            if recv is None:
                raise GoPanic("nil-deref", "invoke on nil interface " + call["method"])
            fid, fvs = self.method(recv, call["method"])
            return self.enter(g, fid, [recv.val] + args, fvs, ret_reg)
        fnv = self.val(fr, call["fn"])
        if isinstance(fnv, Builtin):
            res = self.builtin(g, fr, fnv.name, args, call)
            if ret_reg is not None:
                fr.regs[ret_reg] = res
            return
        self.call_closure(g, fnv, args, ret_reg)

    def method(self, recv, name):
        tid = recv.tid
        if tid == OPERR:
            return "op:error." + name, ()
        if isinstance(tid, str):
            return tid + "." + name, ()
        ms = self.types[tid].get("methods")
        if ms is None or name not in ms:
            raise Unsupported("no method %s on %s" % (name, self.types[tid]["str"]))
        return ms[name], ()

    def run_path(self, fid, prefix):
        """run harness fid following prefix; returns status dict"""
        self.prefix = list(prefix)
        g = self.new_goroutine()
        self.main = g
        self.cur = g
        try:
            self.enter(g, fid, [], (), None)
            self.loop()
            return self.finish(g.result)
        except PathEnd as e:
            return {"status": e.status, "info": e.info}
        except GoPanic as e:
            return self.finish_panic(e)

    def where(self, g=None):
        g = g or self.cur
        out = []
        for fr in g.stack[-6:]:
            try:
                ins = fr.blocks[fr.bi]["instrs"][max(fr.ii - 1, 0)]
                out.append("%s@%s" % (fr.fn["name"], ins.get("pos", "?")))
            except Exception:
                out.append(fr.fn["name"])
        return " < ".join(reversed(out))

    def loop(self):
        ops = OPS
        stats = self.stats
        while True:
            g = self.cur
            if g.status != "run" or not g.stack:
                if not self.schedule():
                    return
                continue
            if g.force_yield:
                g.force_yield = False
                from . import conc
                if conc.yield_now(self, g):
                    continue
            fr = g.stack[-1]
            ins = fr.blocks[fr.bi]["instrs"][fr.ii]
            fr.ii += 1
            stats.instrs += 1
            if stats.instrs > self.max_instrs:
                raise PathEnd("unwind", "instruction budget exceeded at " + self.where())
            if self.init_mode:
                try:
                    ops[ins["op"]](self, g, fr, ins)
                except (Unsupported, TypeError, AttributeError, IndexError, KeyError) as e:
                    self.notes.append("init: %s %s @ %s" % (type(e).__name__, e, self.where()))
                    if ins["op"] in ("If", "Jump", "Return", "Panic"):
                        g.stack.pop()
                        self.deliver_result(g, Poison(str(e)), fr.ret_reg, fr.on_return)
                    elif "reg" in ins:
                        fr.regs[ins["reg"]] = Poison(str(e))
                except GoPanic as e:
                    self.notes.append("init panic: %s %s @ %s" % (e.kind, e.msg, self.where()))
                    g.stack.pop()
                    self.deliver_result(g, Poison("panic in init"), fr.ret_reg, fr.on_return)
            else:
                ops[ins["op"]](self, g, fr, ins)

    def schedule(self):
        """pick the next goroutine; returns False when the main goroutine finished or nothing can run"""
        main = self.main
        if not main.stack and main.status != "parked":
            main.status = "done"
            # main finished: path over (other goroutines are abandoned, like process exit) unless
            # the harness asked to run to quiescence
            if not self.opts.get("run_to_quiescence"):
                return False
        for g in self.gs:
            if g.status == "run" and not g.stack:
                g.status = "done"
        runnable = [g for g in self.gs if g.status == "run"]
        if not runnable:
            st = [g for g in self.gs if g.status == "settle"]
            if st:
                for g in st:
                    g.status = "run"
                runnable = st
        if not runnable:
            if main.status == "done":
                return False
            r = self.check()
            if r == z3.unsat:
                raise PathEnd("infeasible")
            if r != z3.sat:
                raise PathEnd("unknown", "solver unknown confirming a blocked state")
            tape = self.model_tape(self.solver.model())
            raise PathEnd("blocked", {"msg": "deadlock: " + "; ".join("%s:%s@%s" % (g.name, g.status, (g.wait or {}).get("where", "")) for g in self.gs), "tape": tape})
        if len(runnable) == 1:
            self.cur = runnable[0]
            return True
        k = self.choose([True] * len(runnable))
        self.sched_points += 1
        self.cur = runnable[k]
        return True

    # visible operation: give other goroutines a chance to run first
    def yield_point(self, g):
        runnable = [x for x in self.gs if x.status == "run" and x.stack]
        if len(runnable) <= 1:
            return
        k = self.choose([True] * len(runnable))
        self.sched_points += 1
        self.cur = runnable[k]

    def jump(self, fr, target, symbolic=False):
        prev = fr.bi
        blocks = fr.blocks
        b = blocks[target]
        if symbolic:
            c = fr.visits.get(target, 0) + 1
            fr.visits[target] = c
            if c > self.unwind:
                raise PathEnd("unwind", "unwind bound %d exceeded in %s" % (self.unwind, self.where()))
        fr.bi = target
        fr.ii = b["nphi"]
        if b["nphi"]:
            pi = b["preds"].index(prev)
            vals = []
            ins = b["instrs"]
            for k in range(b["nphi"]):
                vals.append(self.val(fr, ins[k]["edges"][pi]))
            for k in range(b["nphi"]):
                fr.regs[ins[k]["reg"]] = vals[k]

    def do_return(self, g, fr, res):
        g.stack.pop()
        self.deliver_result(g, res, fr.ret_reg, fr.on_return)

    # ---------------------------------------------------------------- path end
    def model_tape(self, model):
        out = []
        for kind, v in self.tape:
            if is_sym(v):
                mv = model.eval(v, model_completion=True)
                out.append(mv.as_long())
            else:
                out.append(int(v))
        return out

    def finish(self, res):
        st = {"status": "ok", "cover": sorted(self.cover)}
        if self.asserts_failed:
            st["status"] = "violation"
            st["label"] = self.asserts_failed[0][0]
            st["tape"] = self.asserts_failed[0][1]
            return st
        if res is None or res is True:
            return st
        if isinstance(res, Tup):
            raise Unsupported("harness must return bool")
        if res is False:
            # a violation is only reported with a model of the path condition (the path may have been
            # kept after a solver 'unknown' at a branch and be infeasible)
            r = self.check()
            if r == z3.sat:
                st.update(status="violation", label="return-false", tape=self.model_tape(self.solver.model()))
            elif r == z3.unsat:
                st.update(status="infeasible")
            else:
                st.update(status="unknown", info="solver unknown confirming a concrete false result")
            return st
        res = simp(res)
        if res is True:
            return st
        r = self.final_check(z3.Not(res) if res is not False else None)
        if r[0] == "unsat":
            return st
        if r[0] == "sat":
            st.update(status="violation", label="return-false", tape=r[1])
            return st
        st.update(status="unknown", info="solver unknown on final obligation")
        return st

    def final_check(self, neg):
        """decide PC and neg with a fresh solver; returns ('unsat',) | ('sat', tape) | ('unknown',)"""
        t0 = time.time()
        s = z3.Solver()
        s.set("timeout", self.opts.get("final_timeout_ms", 120000))
        for c in self.pc:
            s.add(c)
        if neg is not None:
            s.add(neg)
        self.stats.queries += 1
        r = s.check()
        self.stats.solver_time += time.time() - t0
        if self.opts.get("xcheck") and len(self.xq) < 2 and r != z3.unknown:
            import random as _r
            if _r.random() < self.opts.get("xcheck_rate", 0.05):
                self.xq.append((s.to_smt2(), str(r)))
        if r == z3.unsat:
            return ("unsat",)
        if r == z3.sat:
            return ("sat", self.model_tape(s.model()))
        self.stats.unknown += 1
        return ("unknown",)

    def fail_assert(self, cond, label):
        """vAssert: record violation if not cond is feasible; continue assuming cond"""
        if cond is True:
            return
        if cond is False:
            r = self.check()
            if r == z3.unsat:
                raise PathEnd("infeasible")
            if r != z3.sat:
                raise PathEnd("unknown", "solver unknown confirming a failed assertion " + label)
            self.asserts_failed.append((label, self.model_tape(self.solver.model())))
            raise PathEnd("violation", {"label": label, "tape": self.asserts_failed[-1][1], "where": self.where()})
        cond = simp(cond)
        if isinstance(cond, bool):
            return self.fail_assert(cond, label)
        r = self.final_check(z3.Not(cond))
        if r[0] == "sat":
            raise PathEnd("violation", {"label": label, "tape": r[1], "where": self.where()})
        if r[0] == "unknown":
            raise PathEnd("unknown", "solver unknown on assertion " + label)
        self.add_pc(cond)
        self.model = None

    def finish_panic(self, e):
        r = self.check()
        if r == z3.unsat:
            return {"status": "infeasible"}
        if r != z3.sat:
            return {"status": "unknown", "info": "solver unknown confirming a panic path (%s)" % e.kind}
        tape = self.model_tape(self.solver.model())
        return {"status": "panic", "kind": e.kind, "msg": str(e.msg), "where": self.where(), "tape": tape,
                "func": self.cur.stack[-1].fn["name"] if self.cur.stack else "?"}


class CallReq:
    """returned by an intercept that needs the engine to call a Go closure and continue with then(result)"""

    def __init__(self, clo, args, then):
        self.fid = clo.fid
        self.fvs = clo.bindings
        self.args = args
        self.then = then


# ======================================================================= instruction semantics
def int_t(ex, tid):
    t = ex.types[tid]
    return t["bits"], t["signed"]


def op_alloc(ex, g, fr, i):
    fr.regs[i["reg"]] = Ptr([ex.zero(i["elem"])], 0)


def arith(ex, tok, x, y, bits, signed):
    if not is_sym(x) and not is_sym(y):
        if tok == "+":
            return norm(x + y, bits, signed)
        if tok == "-":
            return norm(x - y, bits, signed)
        if tok == "*":
            return norm(x * y, bits, signed)
        if tok == "&":
            return norm(x & y, bits, signed)
        if tok == "|":
            return norm(x | y, bits, signed)
        if tok == "^":
            return norm(x ^ y, bits, signed)
        if tok == "&^":
            return norm(x & ~y, bits, signed)
        if tok == "/":
            if y == 0:
                raise GoPanic("div-by-zero")
            q = abs(x) // abs(y)
            if (x < 0) != (y < 0):
                q = -q
            return norm(q, bits, signed)
        if tok == "%":
            if y == 0:
                raise GoPanic("div-by-zero")
            r = abs(x) % abs(y)
            if x < 0:
                r = -r
            return norm(r, bits, signed)
        raise Unsupported("arith " + tok)
    X = to_bv(x, bits)
    Y = to_bv(y, bits)
    if tok == "+":
        r = X + Y
    elif tok == "-":
        r = X - Y
    elif tok == "*":
        r = X * Y
    elif tok == "&":
        r = X & Y
    elif tok == "|":
        r = X | Y
    elif tok == "^":
        r = X ^ Y
    elif tok == "&^":
        r = X & ~Y
    elif tok in ("/", "%"):
        if ex.branch(Y == 0):
            raise GoPanic("div-by-zero")
        if signed:
            r = X / Y if tok == "/" else z3.SRem(X, Y)
        else:
            r = z3.UDiv(X, Y) if tok == "/" else z3.URem(X, Y)
    else:
        raise Unsupported("arith " + tok)
    return fold(r, bits, signed)


def fold(r, bits, signed):
    r = z3.simplify(r)
    if z3.is_bv_value(r):
        return norm(r.as_long(), bits, signed)
    return r


def shift(ex, tok, x, y, bits, signed, ybits, ysigned):
    if not is_sym(y):
        if y < 0:
            raise GoPanic("negative-shift")
        if not is_sym(x):
            if tok == "<<":
                return norm(x << y, bits, signed) if y < bits else 0
            if y >= bits:
                return -1 if (signed and x < 0) else 0
            return norm(x >> y, bits, signed)
        if y >= bits:
            if tok == "<<" or not signed:
                return 0
            return fold(z3.If(x < 0, z3.BitVecVal(-1, bits), z3.BitVecVal(0, bits)), bits, signed)
        Y = z3.BitVecVal(y, bits)
        if tok == "<<":
            return fold(x << Y, bits, signed)
        return fold((x >> Y) if signed else z3.LShR(x, Y), bits, signed)
    # symbolic shift count
    if ysigned:
        if ex.branch(y < 0):
            raise GoPanic("negative-shift")
    X = to_bv(x, bits)
    big = z3.UGE(y, z3.BitVecVal(bits, ybits)) if ybits > 7 or bits < (1 << ybits) else z3.BoolVal(False)
    if ybits < bits:
        Y = z3.ZeroExt(bits - ybits, y)
    elif ybits > bits:
        Y = z3.Extract(bits - 1, 0, y)
    else:
        Y = y
    if tok == "<<":
        r = z3.If(big, z3.BitVecVal(0, bits), X << Y)
    elif signed:
        r = z3.If(big, z3.If(X < 0, z3.BitVecVal(-1, bits), z3.BitVecVal(0, bits)), X >> Y)
    else:
        r = z3.If(big, z3.BitVecVal(0, bits), z3.LShR(X, Y))
    return fold(r, bits, signed)


def compare_int(tok, x, y, bits, signed):
    if not is_sym(x) and not is_sym(y):
        return {"<": x < y, "<=": x <= y, ">": x > y, ">=": x >= y}[tok]
    X = to_bv(x, bits)
    Y = to_bv(y, bits)
    if signed:
        r = {"<": X < Y, "<=": X <= Y, ">": X > Y, ">=": X >= Y}[tok]
    else:
        r = {"<": z3.ULT(X, Y), "<=": z3.ULE(X, Y), ">": z3.UGT(X, Y), ">=": z3.UGE(X, Y)}[tok]
    return simp(r)


def str_less(ex, a, b):
    """lexicographic a < b over byte tuples, returns bool or z3 Bool"""
    n = min(len(a), len(b))
    res = len(a) < len(b)
    for i in range(n - 1, -1, -1):
        x, y = a[i], b[i]
        lt = compare_int("<", x, y, 8, False)
        e = ex.eq(x, y)
        # a<b  <=> x<y or (x==y and rest)
        res = bor(lt, band(e, res))
    return simp(res)


def op_binop(ex, g, fr, i):
    x = ex.val(fr, i["x"])
    y = ex.val(fr, i["y"])
    tok = i["tok"]
    if isinstance(x, Poison) or isinstance(y, Poison):
        if ex.init_mode:
            fr.regs[i["reg"]] = Poison("binop")
            return
        raise Unsupported("binop on poison")
    if tok in ("==", "!="):
        r = ex.eq(x, y)
        fr.regs[i["reg"]] = r if tok == "==" else simp(bnot(r))
        return
    t = ex.types[i["xt"]]
    k = t["kind"]
    if k == "int":
        bits, signed = t["bits"], t["signed"]
        if tok in ("<<", ">>"):
            yt = ex.types[i["yt"]]
            fr.regs[i["reg"]] = shift(ex, tok, x, y, bits, signed, yt["bits"], yt["signed"])
        elif tok in ("<", "<=", ">", ">="):
            fr.regs[i["reg"]] = compare_int(tok, x, y, bits, signed)
        else:
            fr.regs[i["reg"]] = arith(ex, tok, x, y, bits, signed)
        return
    if k == "string":
        if tok == "+":
            fr.regs[i["reg"]] = x + y
            return
        if tok == "<":
            r = str_less(ex, x, y)
        elif tok == ">":
            r = str_less(ex, y, x)
        elif tok == "<=":
            r = simp(bnot(str_less(ex, y, x)))
        elif tok == ">=":
            r = simp(bnot(str_less(ex, x, y)))
        else:
            raise Unsupported("string op " + tok)
        fr.regs[i["reg"]] = r
        return
    if k == "bool":
        if tok in ("&", "&&"):
            fr.regs[i["reg"]] = simp(band(x, y))
            return
        if tok in ("|", "||"):
            fr.regs[i["reg"]] = simp(bor(x, y))
            return
    if k == "float":
        if is_sym(x) or is_sym(y):
            raise Unsupported("symbolic float")
        r = {"+": lambda: x + y, "-": lambda: x - y, "*": lambda: x * y, "/": lambda: x / y,
             "<": lambda: x < y, "<=": lambda: x <= y, ">": lambda: x > y, ">=": lambda: x >= y}[tok]()
        fr.regs[i["reg"]] = r
        return
    raise Unsupported("binop %s on %s" % (tok, k))


def op_unop(ex, g, fr, i):
    x = ex.val(fr, i["x"])
    tok = i["tok"]
    if tok == "*":
        et = ex.types[i["xt"]].get("elem")
        fr.regs[i["reg"]] = ex.load_typed(x, et) if et is not None else ex.load(x)
        return
    if isinstance(x, Poison):
        if ex.init_mode:
            fr.regs[i["reg"]] = Poison("unop")
            return
        raise Unsupported("unop on poison")
    if tok == "!":
        fr.regs[i["reg"]] = simp(bnot(x))
        return
    if tok == "-":
        t = ex.types[i["xt"]]
        if t["kind"] == "float":
            fr.regs[i["reg"]] = -x
            return
        bits, signed = t["bits"], t["signed"]
        fr.regs[i["reg"]] = norm(-x, bits, signed) if not is_sym(x) else fold(-x, bits, signed)
        return
    if tok == "^":
        t = ex.types[i["xt"]]
        bits, signed = t["bits"], t["signed"]
        fr.regs[i["reg"]] = norm(~x, bits, signed) if not is_sym(x) else fold(~x, bits, signed)
        return
    if tok == "<-":
        from . import conc
        conc.op_recv(ex, g, fr, i, x)
        return
    raise Unsupported("unop " + tok)


def op_call(ex, g, fr, i):
    ex.do_call(g, fr, i["call"], i.get("reg"))


def op_change(ex, g, fr, i):
    fr.regs[i["reg"]] = ex.val(fr, i["x"])


def convert(ex, x, ft, tt):
    F = ex.types[ft]
    T = ex.types[tt]
    fk, tk = F["kind"], T["kind"]
    if isinstance(x, Poison):
        return x
    if fk == "int" and tk == "int":
        fb, fs, tb, ts = F["bits"], F["signed"], T["bits"], T["signed"]
        if not is_sym(x):
            return norm(x, tb, ts)
        if tb == fb:
            return x
        if tb < fb:
            return fold(z3.Extract(tb - 1, 0, x), tb, ts)
        return fold(z3.SignExt(tb - fb, x) if fs else z3.ZeroExt(tb - fb, x), tb, ts)
    if fk == "string" and tk == "slice":
        et = ex.types[T["elem"]]
        if et["kind"] == "int" and et["bits"] == 8:
            arr = list(x)
            return Slice(arr, 0, len(arr), len(arr))
        raise Unsupported("string->[]rune")
    if fk == "slice" and tk == "string":
        if x.arr is None:
            return ()
        return tuple(x.arr[x.off:x.off + x.len])
    if fk == "int" and tk == "float":
        if is_sym(x):
            raise Unsupported("symbolic int->float")
        return float(x)
    if fk == "float" and tk == "int":
        return norm(int(x), T["bits"], T["signed"])
    if fk == "float" and tk == "float":
        return x
    if fk == "int" and tk == "string":
        if is_sym(x):
            raise Unsupported("symbolic rune->string")
        try:
            return tuple(chr(x).encode("utf8"))
        except Exception:
            return tuple("�".encode("utf8"))
    if fk == tk:
        return x
    if tk == "unsafeptr" or fk == "unsafeptr":
        raise Unsupported("unsafe pointer conversion")
    raise Unsupported("convert %s -> %s" % (fk, tk))


def op_convert(ex, g, fr, i):
    fr.regs[i["reg"]] = convert(ex, ex.val(fr, i["x"]), i["xt"], i["type"])


def op_extract(ex, g, fr, i):
    t = ex.val(fr, i["x"])
    if isinstance(t, Poison):
        fr.regs[i["reg"]] = t
        return
    fr.regs[i["reg"]] = t[i["index"]]


def op_field(ex, g, fr, i):
    s = ex.val(fr, i["x"])
    if isinstance(s, Poison):
        fr.regs[i["reg"]] = s
        return
    v = s[i["field"]]
    fr.regs[i["reg"]] = copyval(v) if type(v) is list else v


def op_fieldaddr(ex, g, fr, i):
    p = ex.val(fr, i["x"])
    if p is None:
        raise GoPanic("nil-deref", "field of nil pointer")
    if isinstance(p, Poison):
        fr.regs[i["reg"]] = p
        return
    idx = p.idx
    if type(idx) is not int:
        idx = ex.concretize(idx, 0, len(p.cont) - 1)
    st = p.cont[idx]
    fr.regs[i["reg"]] = Ptr(st, i["field"])


def op_go(ex, g, fr, i):
    from . import conc
    conc.op_go(ex, g, fr, i)


def op_if(ex, g, fr, i):
    c = ex.val(fr, i["cond"])
    succs = fr.blocks[fr.bi]["succs"]
    if isinstance(c, Poison):
        raise Unsupported("branch on poison value (%s) at %s" % (c.why, ex.where()))
    if c is True:
        ex.jump(fr, succs[0])
    elif c is False:
        ex.jump(fr, succs[1])
    else:
        b = ex.branch(c)
        ex.jump(fr, succs[0] if b else succs[1], symbolic=True)


def check_index(ex, idx, n, it):
    """bounds check idx against concrete length n; returns idx (int or sym)"""
    if not is_sym(idx):
        if idx < 0 or idx >= n:
            raise GoPanic("index-out-of-range", "%d with length %d" % (idx, n))
        return idx
    bits = idx.size()
    if bits < 64:
        t = ex.types[it]
        idx = z3.SignExt(64 - bits, idx) if t["signed"] else z3.ZeroExt(64 - bits, idx)
    inb = z3.ULT(idx, z3.BitVecVal(n, 64))
    if not ex.branch(inb):
        raise GoPanic("index-out-of-range", "symbolic index with length %d" % n)
    idx = simp(idx)
    if z3.is_bv_value(idx):
        return idx.as_long()
    return idx


def op_index(ex, g, fr, i):
    x = ex.val(fr, i["x"])
    idx = ex.val(fr, i["index"])
    t = ex.types[i["xt"]]
    if t["kind"] == "array":
        idx = check_index(ex, idx, len(x), i.get("it"))
        fr.regs[i["reg"]] = ex.load_typed(Ptr(x, idx), t["elem"])
        return
    if t["kind"] == "string":
        idx = check_index(ex, idx, len(x), i.get("it"))
        fr.regs[i["reg"]] = x[idx] if type(idx) is int else _sel_bytes(x, idx)
        return
    raise Unsupported("Index on " + t["kind"])


def op_indexaddr(ex, g, fr, i):
    x = ex.val(fr, i["x"])
    idx = ex.val(fr, i["index"])
    it = i.get("it")
    if isinstance(x, Poison):
        fr.regs[i["reg"]] = x
        return
    if isinstance(x, Opaque):
        I = to_bv(widen(ex, idx, it), 64)
        if not ex.branch(z3.ULT(I, to_bv(x.len, 64))):
            raise GoPanic("index-out-of-range", "opaque slice")
        fr.regs[i["reg"]] = Ptr([ex.havoc(8, "ob")], 0)
        return
    if isinstance(x, Slice):
        if x.arr is None:
            raise GoPanic("index-out-of-range", "index of nil/empty slice")
        idx = check_index(ex, idx, x.len, it)
        if type(idx) is int:
            fr.regs[i["reg"]] = Ptr(x.arr, x.off + idx)
        else:
            fr.regs[i["reg"]] = Ptr(x.arr, idx + x.off if x.off else idx)
        return
    if x is None:
        raise GoPanic("nil-deref", "index of nil array pointer")
    arr = x.cont[x.idx]
    idx = check_index(ex, idx, len(arr), it)
    fr.regs[i["reg"]] = Ptr(arr, idx)


def op_jump(ex, g, fr, i):
    ex.jump(fr, fr.blocks[fr.bi]["succs"][0])


def map_find(ex, m, key):
    """returns entry index or -1; forks on symbolic key equality"""
    for n, (k, v) in enumerate(m.entries):
        e = ex.eq(k, key)
        if e is True:
            return n
        if e is False:
            continue
        if ex.branch(e):
            return n
    return -1


def op_lookup(ex, g, fr, i):
    x = ex.val(fr, i["x"])
    idx = ex.val(fr, i["index"])
    t = ex.types[i["xt"]]
    if t["kind"] == "string":
        idx = check_index(ex, idx, len(x), i.get("it"))
        if type(idx) is int:
            fr.regs[i["reg"]] = x[idx]
        else:
            fr.regs[i["reg"]] = _sel_bytes(x, idx)
        return
    if t["kind"] == "map":
        if isinstance(x, Poison):
            raise Unsupported("lookup in poison map")
        n = -1 if x is None else map_find(ex, x, idx)
        if n >= 0:
            v = x.entries[n][1]
            v = copyval(v) if type(v) is list else v
            ok = True
        else:
            v = ex.zero(t["elem"])
            ok = False
        fr.regs[i["reg"]] = Tup([v, ok]) if i["commaok"] else v
        return
    raise Unsupported("Lookup on " + t["kind"])


def _sel_bytes(s, idx):
    return select_chain(s, idx, 8)


def op_makechan(ex, g, fr, i):
    size = ex.val(fr, i["size"])
    if is_sym(size):
        raise Unsupported("symbolic chan size")
    fr.regs[i["reg"]] = Chan(size, ex.types[i["type"]].get("elem"))


def op_makeclosure(ex, g, fr, i):
    f = ex.val(fr, i["fn"])
    fr.regs[i["reg"]] = Closure(f.fid, tuple(ex.val(fr, b) for b in i["bindings"]))


def op_makeinterface(ex, g, fr, i):
    v = ex.val(fr, i["x"])
    if isinstance(v, Poison):
        fr.regs[i["reg"]] = v
        return
    fr.regs[i["reg"]] = Iface(i["xt"], copyval(v) if type(v) is list else v)


def op_makemap(ex, g, fr, i):
    t = ex.types[i["type"]]
    fr.regs[i["reg"]] = GoMap(t["key"], t["elem"])


def widen(ex, v, tid):
    """integer operand of any type -> 64-bit (python int stays; BV is sign/zero extended)"""
    if not is_sym(v) or v.size() == 64:
        return v
    t = ex.types[tid]
    n = 64 - v.size()
    return z3.SignExt(n, v) if t["signed"] else z3.ZeroExt(n, v)


def op_makeslice(ex, g, fr, i):
    ln = widen(ex, ex.val(fr, i["len"]), i.get("lent"))
    cp = widen(ex, ex.val(fr, i["cap"]), i.get("capt"))
    et = ex.types[i["type"]]["elem"]
    maxn = ex.opts.get("max_make", 4096)
    if is_sym(ln):
        if ex.branch(z3.Or(ln < 0, ln > maxn)):
            if ex.branch(ln < 0):
                raise GoPanic("makeslice-len-out-of-range")
            raise PathEnd("unwind", "make with symbolic length above %d at %s" % (maxn, ex.where()))
        ln = ex.concretize(ln, 0, maxn)
    if is_sym(cp):
        if ex.branch(z3.Or(cp < ln, cp > maxn)):
            if ex.branch(cp < ln):
                raise GoPanic("makeslice-cap-out-of-range")
            raise PathEnd("unwind", "make with symbolic cap above %d at %s" % (maxn, ex.where()))
        cp = ex.concretize(cp, 0, maxn)
    if ln < 0:
        raise GoPanic("makeslice-len-out-of-range")
    if cp < ln:
        raise GoPanic("makeslice-cap-out-of-range")
    if cp > 1 << 22:
        raise PathEnd("unwind", "huge make(%d)" % cp)
    z = ex.zero(et)
    if type(z) is list:
        arr = [ex.zero(et) for _ in range(cp)]
    else:
        arr = [z] * cp
    fr.regs[i["reg"]] = Slice(arr, 0, ln, cp)


def op_mapupdate(ex, g, fr, i):
    m = ex.val(fr, i["map"])
    k = ex.val(fr, i["key"])
    v = ex.val(fr, i["value"])
    if isinstance(m, Poison):
        if ex.init_mode:
            return
        raise Unsupported("update of poison map")
    if m is None:
        raise GoPanic("nil-map-write")
    n = map_find(ex, m, k)
    v = copyval(v) if type(v) is list else v
    if n >= 0:
        m.entries[n][1] = v
    else:
        m.entries.append([copyval(k) if type(k) is list else k, v])


def op_range(ex, g, fr, i):
    x = ex.val(fr, i["x"])
    t = ex.types[i["xt"]]
    if t["kind"] == "map":
        items = [] if x is None else [(k, v) for k, v in x.entries]
        n = len(items)
        if 2 <= n <= ex.opts.get("map_perm_max", 3):
            # every iteration order is possible: fork on a permutation
            import itertools
            perms = list(itertools.permutations(range(n)))
            k = ex.choose([True] * len(perms))
            items = [items[j] for j in perms[k]]
        fr.regs[i["reg"]] = MapIter(items)
        return
    raise Unsupported("range over " + t["kind"])


def op_next(ex, g, fr, i):
    it = ex.val(fr, i["iter"])
    if i["isstring"]:
        raise Unsupported("range over string")
    if it.pos < len(it.items):
        k, v = it.items[it.pos]
        it.pos += 1
        fr.regs[i["reg"]] = Tup([True, k, copyval(v) if type(v) is list else v])
    else:
        fr.regs[i["reg"]] = Tup([False, None, None])


def op_panic(ex, g, fr, i):
    v = ex.val(fr, i["x"])
    raise GoPanic("explicit", describe(ex, v))


def describe(ex, v):
    if isinstance(v, Iface):
        if v.tid == OPERR:
            return "error(%s)" % bytes(v.val.msg).decode("utf8", "replace")
        if isinstance(v.val, tuple):
            try:
                return bytes(v.val).decode("utf8", "replace")
            except Exception:
                return repr(v.val)
        return repr(v.val)
    return repr(v)


def op_phi(ex, g, fr, i):
    raise Unsupported("phi executed directly")


def op_return(ex, g, fr, i):
    rs = i["results"]
    if len(rs) == 0:
        res = None
    elif len(rs) == 1:
        res = ex.val(fr, rs[0])
    else:
        res = Tup(ex.val(fr, r) for r in rs)
    ex.do_return(g, fr, res)


def op_rundefers(ex, g, fr, i):
    if fr.defers:
        d = fr.defers.pop()
        fr.ii -= 1  # come back here after the deferred call returns
        kind, f, args = d
        if kind == "builtin":
            ex.builtin(g, fr, f, args, None)
        elif kind == "closure":
            ex.call_closure(g, f, args, None)
        else:
            ex.enter(g, f[0], args, f[1], None)


def op_defer(ex, g, fr, i):
    call = i["call"]
    args = [ex.val(fr, a) for a in call["args"]]
    if call.get("invoke"):
        recv = ex.val(fr, call["recv"])
        if recv is None:
            raise GoPanic("nil-deref", "defer invoke on nil")
        fid, fvs = ex.method(recv, call["method"])
        fr.defers.append(("fid", (fid, fvs), [recv.val] + args))
        return
    fnv = ex.val(fr, call["fn"])
    if isinstance(fnv, Builtin):
        fr.defers.append(("builtin", fnv.name, args))
    else:
        fr.defers.append(("closure", fnv, args))


def slice_bounds(ex, low, high, mx, length, cap, is_string):
    """evaluate and check 0 <= low <= high <= max <= cap; returns concrete (low, high, max)"""
    limit = length if is_string else cap
    # normalise defaults
    vals = [low if low is not None else 0, high if high is not None else length, mx if mx is not None else cap]
    if not any(is_sym(v) for v in vals):
        l, h, m = vals
        if not (0 <= l <= h <= m <= cap) or (high is None and l > length):
            raise GoPanic("slice-bounds-out-of-range", "[%s:%s:%s] with len %d cap %d" % (l, h, m, length, cap))
        if is_string and h > length:
            raise GoPanic("slice-bounds-out-of-range", "[%s:%s] with len %d" % (l, h, length))
        return l, h, m
    L, H, M = [to_bv(v, 64) for v in vals]
    ok = z3.And(z3.ULE(L, H), z3.ULE(H, M), z3.ULE(M, z3.BitVecVal(limit, 64)))
    if not ex.branch(ok):
        raise GoPanic("slice-bounds-out-of-range", "symbolic bounds with len %d cap %d" % (length, cap))
    l = ex.concretize(L, 0, limit)
    h = ex.concretize(H, l, limit)
    m = ex.concretize(M, h, limit)
    return l, h, m


def op_slice(ex, g, fr, i):
    x = ex.val(fr, i["x"])
    low = widen(ex, ex.val(fr, i["low"]), i.get("lowt")) if i["low"] is not None else None
    high = widen(ex, ex.val(fr, i["high"]), i.get("hight")) if i["high"] is not None else None
    mx = widen(ex, ex.val(fr, i["max"]), i.get("maxt")) if i["max"] is not None else None
    k = ex.types[i["xt"]]["kind"]
    if isinstance(x, Poison):
        fr.regs[i["reg"]] = x
        return
    if k == "string":
        l, h, m = slice_bounds(ex, low, high, None, len(x), len(x), True)
        fr.regs[i["reg"]] = x[l:h]
        return
    if k == "slice" and isinstance(x, Opaque):
        L = to_bv(low if low is not None else 0, 64)
        H = to_bv(high if high is not None else x.len, 64)
        C = to_bv(x.len, 64)
        if not ex.branch(z3.And(z3.ULE(L, H), z3.ULE(H, C))):
            raise GoPanic("slice-bounds-out-of-range", "opaque slice")
        r = simp(H - L)
        fr.regs[i["reg"]] = Opaque(r.as_long() if z3.is_bv_value(r) else r)
        return
    if k == "slice":
        l, h, m = slice_bounds(ex, low, high, mx, x.len, x.cap, False)
        if x.arr is None:
            fr.regs[i["reg"]] = Slice(None, 0, 0, 0)
            return
        fr.regs[i["reg"]] = Slice(x.arr, x.off + l, h - l, m - l)
        return
    if k == "ptr":
        if x is None:
            raise GoPanic("nil-deref", "slice of nil array pointer")
        arr = x.cont[x.idx]
        n = len(arr)
        l, h, m = slice_bounds(ex, low, high, mx, n, n, False)
        fr.regs[i["reg"]] = Slice(arr, l, h - l, m - l)
        return
    raise Unsupported("slice of " + k)


def op_slice2arrptr(ex, g, fr, i):
    x = ex.val(fr, i["x"])
    t = ex.types[ex.types[i["type"]]["elem"]]
    n = t["len"]
    if x.len < n:
        raise GoPanic("slice-to-array-length", "%d < %d" % (x.len, n))
    if x.arr is None:
        fr.regs[i["reg"]] = None if n == 0 else None
        return
    if x.off == 0 and len(x.arr) == n:
        fr.regs[i["reg"]] = Ptr([x.arr], 0)
        return
    raise Unsupported("SliceToArrayPointer of a sub-range (aliasing view)")


def op_store(ex, g, fr, i):
    p = ex.val(fr, i["addr"])
    v = ex.val(fr, i["val"])
    ex.store(p, v, i.get("vt"))


def implements(ex, tid, itid):
    if tid == OPERR:
        return ex.types[itid]["imethods"] in (["Error"], [])
    if isinstance(tid, str):
        return ex.icpt.virtual_implements(tid, ex.types[itid])
    ms = ex.types[tid].get("methods") or {}
    for m in ex.types[itid]["imethods"]:
        if m not in ms:
            return False
    return True


def op_typeassert(ex, g, fr, i):
    x = ex.val(fr, i["x"])
    at = i["asserted"]
    T = ex.types[at]
    if isinstance(x, Poison):
        if ex.init_mode:
            fr.regs[i["reg"]] = x
            return
        raise Unsupported("type assert on poison")
    if T["kind"] == "iface":
        ok = x is not None and implements(ex, x.tid, at)
        v = x if ok else None
    else:
        ok = x is not None and x.tid == at
        if ok:
            v = x.val
            v = copyval(v) if type(v) is list else v
        else:
            v = ex.zero(at)
    if i["commaok"]:
        fr.regs[i["reg"]] = Tup([v, ok])
    else:
        if not ok:
            raise GoPanic("type-assertion", "to " + T["str"])
        fr.regs[i["reg"]] = v


def op_send(ex, g, fr, i):
    from . import conc
    conc.op_send(ex, g, fr, i)


def op_select(ex, g, fr, i):
    from . import conc
    conc.op_select(ex, g, fr, i)


OPS = {
    "Alloc": op_alloc, "BinOp": op_binop, "UnOp": op_unop, "Call": op_call,
    "ChangeInterface": op_change, "ChangeType": op_change, "Convert": op_convert,
    "Extract": op_extract, "Field": op_field, "FieldAddr": op_fieldaddr, "Go": op_go,
    "If": op_if, "Index": op_index, "IndexAddr": op_indexaddr, "Jump": op_jump,
    "Lookup": op_lookup, "MakeChan": op_makechan, "MakeClosure": op_makeclosure,
    "MakeInterface": op_makeinterface, "MakeMap": op_makemap, "MakeSlice": op_makeslice,
    "MapUpdate": op_mapupdate, "Range": op_range, "Next": op_next, "Panic": op_panic,
    "Phi": op_phi, "Return": op_return, "RunDefers": op_rundefers, "Defer": op_defer,
    "Slice": op_slice, "SliceToArrayPointer": op_slice2arrptr, "Store": op_store,
    "TypeAssert": op_typeassert, "Send": op_send, "Select": op_select,
}
