# Go builtin functions
import z3
from .values import *
from .exec import Executor, copyval, compare_int, describe


def slice_elems(s):
    if s.arr is None:
        return []
    return s.arr[s.off:s.off + s.len]


def go_append(ex, s, elems):
    """append list of element values to slice s; returns new slice"""
    n = len(elems)
    if n == 0:
        return s
    if s.arr is not None and s.len + n <= s.cap:
        base = s.off + s.len
        for k, e in enumerate(elems):
            v = copyval(e) if type(e) is list else e
            if type(v) is list and type(s.arr[base + k]) is list:
                s.arr[base + k] = v
            else:
                s.arr[base + k] = v
        return Slice(s.arr, s.off, s.len + n, s.cap)
    arr = [copyval(x) if type(x) is list else x for x in slice_elems(s)]
    arr.extend(copyval(e) if type(e) is list else e for e in elems)
    return Slice(arr, 0, len(arr), len(arr))


def builtin(ex, g, fr, name, args, call):
    if name in ("len", "cap") and isinstance(args[0], Opaque):
        return args[0].len
    if name == "len":
        x = args[0]
        if isinstance(x, Slice):
            return x.len
        if isinstance(x, tuple):
            return len(x)
        if x is None:
            return 0
        if isinstance(x, GoMap):
            return len(x.entries)
        if isinstance(x, Chan):
            return len(x.buf)
        if isinstance(x, list):
            return len(x)
        if isinstance(x, Ptr):  # pointer to array
            return len(x.cont[x.idx])
        raise Unsupported("len of %r" % (x,))
    if name == "cap":
        x = args[0]
        if isinstance(x, Slice):
            return x.cap
        if x is None:
            return 0
        if isinstance(x, Chan):
            return x.cap
        if isinstance(x, list):
            return len(x)
        if isinstance(x, Ptr):
            return len(x.cont[x.idx])
        raise Unsupported("cap of %r" % (x,))
    if name == "append" and (isinstance(args[0], Opaque) or isinstance(args[1], Opaque)):
        from .exec import arith
        a, b = args
        la = a.len if isinstance(a, (Opaque, Slice)) else 0
        lb = b.len if isinstance(b, (Opaque, Slice)) else (len(b) if isinstance(b, tuple) else 0)
        return Opaque(arith(ex, "+", la, lb, 64, True))
    if name == "append":
        s, t = args
        if isinstance(t, tuple):
            elems = list(t)
        elif t is None:
            elems = []
        else:
            elems = slice_elems(t)
        return go_append(ex, s, elems)
    if name == "copy":
        d, s = args
        src = list(s) if isinstance(s, tuple) else slice_elems(s)
        n = min(d.len, len(src))
        src = [copyval(x) if type(x) is list else x for x in src[:n]]
        for k in range(n):
            d.arr[d.off + k] = src[k]
        return n
    if name == "delete":
        m, k = args
        if m is None:
            return None
        from .exec import map_find
        n = map_find(ex, m, k)
        if n >= 0:
            del m.entries[n]
        return None
    if name == "close":
        from . import conc
        conc.close_chan(ex, g, args[0])
        return None
    if name in ("print", "println"):
        return None
    if name == "recover":
        return None
    if name in ("min", "max"):
        t = ex.types[call["sig"]]
        rt = ex.types[t["results"][0]]
        if rt["kind"] != "int":
            raise Unsupported("min/max on " + rt["kind"])
        bits, signed = rt["bits"], rt["signed"]
        r = args[0]
        for a in args[1:]:
            c = compare_int("<", a, r, bits, signed) if name == "min" else compare_int(">", a, r, bits, signed)
            r = ite(c, a, r, bits)
        return r
    if name == "clear":
        x = args[0]
        if isinstance(x, GoMap):
            x.entries = []
            return None
        raise Unsupported("clear of slice")
    if name == "ssa:wrapnilchk":
        if args[0] is None:
            raise GoPanic("nil-deref", "value method called through nil pointer")
        return args[0]
    if name == "panic":
        raise GoPanic("explicit", describe(ex, args[0]))
    raise Unsupported("builtin " + name)


Executor.builtin = builtin
