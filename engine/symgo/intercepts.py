# Engine-level intercepts: harness intrinsics (v*) and the trusted models of the
# environment (DESIGN.md 3.4). Every intercept used by a run is listed in its evidence.
import re
import z3
from .values import *
from .exec import (Executor, ErrObj, OPERR, CallReq, copyval, compare_int, Closure, str_less, describe)
from . import conc
from .builtins_ import slice_elems, go_append


class Intercepts:
    def __init__(self):
        self.exact = {}
        self.suffix = {}
        self.patterns = []
        self.cache = {}
        self.cond = {}   # fid -> (option flag, fn): models enabled per harness through //verif: stubs=

    def lookup(self, fid):
        try:
            return self.cache[fid]
        except KeyError:
            pass
        f = self.exact.get(fid)
        if f is None:
            base = fid.rsplit(".", 1)[-1]
            if base.startswith("v") and base in self.suffix and "(" not in fid:
                f = self.suffix[base]
        if f is None:
            for pat, fn in self.patterns:
                if pat.match(fid):
                    f = fn
                    break
        self.cache[fid] = f
        return f

    def virtual_implements(self, tid, itype):
        if tid == "op:ctx":
            return set(itype["imethods"]) <= {"Deadline", "Done", "Err", "Value"}
        if tid == "op:xof":
            return set(itype["imethods"]) <= {"Write", "Read"}
        return False


I = Intercepts()


def exact(*names):
    def deco(f):
        for n in names:
            I.exact[n] = f
        return f
    return deco


def exact_if(flag, *names):
    def deco(f):
        for n in names:
            I.cond[n] = (flag, f)
        return f
    return deco


def vfunc(name):
    def deco(f):
        I.suffix[name] = f
        return f
    return deco


def pattern(rx):
    def deco(f):
        I.patterns.append((re.compile(rx), f))
        return f
    return deco


def gostr(s):
    return tuple(s.encode("utf8"))


def pystr(t):
    out = []
    for b in t:
        out.append(b if not is_sym(b) else 63)
    return bytes(out).decode("utf8", "replace")


# ------------------------------------------------------------------ harness intrinsics
@vfunc("vByte")
def v_byte(ex, g, fid, args):
    return ex.fresh("b", 8)


@vfunc("vBool")
def v_bool(ex, g, fid, args):
    v = ex.fresh("f", 8)
    if is_sym(v):
        return simp(z3.Extract(0, 0, v) == 1)
    return (v & 1) == 1


@vfunc("vU16")
def v_u16(ex, g, fid, args):
    return ex.fresh("s", 16)


@vfunc("vU32")
def v_u32(ex, g, fid, args):
    return ex.fresh("w", 32)


@vfunc("vU64")
def v_u64(ex, g, fid, args):
    return ex.fresh("q", 64)


@vfunc("vI64")
def v_i64(ex, g, fid, args):
    v = ex.fresh("q", 64)
    return v if is_sym(v) else norm(v, 64, True)


@vfunc("vInt")
def v_int(ex, g, fid, args):
    """forked concrete choice in [lo,hi]"""
    lo, hi = args
    if is_sym(lo) or is_sym(hi):
        raise Unsupported("vInt bounds must be concrete")
    if hi < lo:
        raise PathEnd("assume")
    return lo + ex.fresh_choice(hi - lo + 1, "n")


@vfunc("vRange")
def v_range(ex, g, fid, args):
    """symbolic int in [lo,hi] (not forked)"""
    lo, hi = args
    v = ex.fresh("q", 64)
    if is_sym(v):
        ex.assume(z3.And(v >= lo, v <= hi))
        return v
    v = norm(v, 64, True)
    if v < lo or v > hi:
        raise PathEnd("assume")
    return v


@vfunc("vBytes")
def v_bytes(ex, g, fid, args):
    mx = args[0]
    n = ex.fresh_choice(mx + 1, "n")
    arr = [ex.fresh("b", 8) for _ in range(n)]
    return Slice(arr, 0, n, n)


@vfunc("vBytesN")
def v_bytesn(ex, g, fid, args):
    n = args[0]
    if is_sym(n):
        raise Unsupported("vBytesN needs concrete n")
    arr = [ex.fresh("b", 8) for _ in range(n)]
    return Slice(arr, 0, n, n)


@vfunc("vOpaque")
def v_opaque(ex, g, fid, args):
    """byte slice of symbolic length 0..max with untracked contents"""
    mx = args[0]
    n = ex.fresh("q", 64)
    if is_sym(n):
        ex.assume(z3.And(n >= 0, n <= mx))
        return Opaque(n)
    n = norm(n, 64, True)
    if n < 0 or n > mx:
        raise PathEnd("assume")
    return Slice([0] * n, 0, n, n)


@vfunc("vDone")
def v_done(ex, g, fid, args):
    """end the path here with verdict ok"""
    ex.fail_assert(args[0], pystr(args[1]))
    raise PathEnd("ok")


@vfunc("vAssume")
def v_assume(ex, g, fid, args):
    ex.assume(args[0])
    return None


@vfunc("vAssert")
def v_assert(ex, g, fid, args):
    ex.fail_assert(args[0], pystr(args[1]))
    return None


@vfunc("vCover")
def v_cover(ex, g, fid, args):
    ex.cover.add(pystr(args[0]))
    return None


@vfunc("vNote")
def v_note(ex, g, fid, args):
    ex.notes.append(pystr(args[0]))
    return None


@vfunc("vYield")
def v_yield(ex, g, fid, args):
    fr = g.stack[-1]
    conc.maybe_yield(ex, g, fr)
    return None


@vfunc("vSettle")
def v_settle(ex, g, fid, args):
    """natively a short sleep so that the other goroutines park first. Symbolically a plain
    scheduling point: every interleaving at visible operations is explored anyway."""
    conc.maybe_yield(ex, g, g.stack[-1])
    return None


@vfunc("vIte")
def v_ite(ex, g, fid, args):
    return ite(args[0], args[1], args[2], 64)


@vfunc("vAnd")
def v_and(ex, g, fid, args):
    return simp(band(args[0], args[1]))


@vfunc("vOr")
def v_or(ex, g, fid, args):
    return simp(bor(args[0], args[1]))


@vfunc("vEqBytes")
def v_eqbytes(ex, g, fid, args):
    a, b = args
    if a.len != b.len:
        return False
    return ex.eq(tuple(slice_elems(a)), tuple(slice_elems(b)))


@vfunc("vThorough")
def v_thorough(ex, g, fid, args):
    return ex.opts.get("tier") == "thorough"


@vfunc("vSymbolic")
def v_symbolic(ex, g, fid, args):
    return ex.pinned is None


# ------------------------------------------------------------------ errors
def mkerr(ex, msg, cause=None):
    ex.errsite += 1
    return Iface(OPERR, ErrObj(ex.errsite, msg, cause))


@exact("errors.New", "github.com/pkg/errors.New")
def errors_new(ex, g, fid, args):
    return mkerr(ex, args[0])


@exact("fmt.Errorf", "github.com/pkg/errors.Errorf")
def fmt_errorf(ex, g, fid, args):
    cause = None
    va = args[1]
    if isinstance(va, Slice) and va.arr is not None:
        for e in slice_elems(va):
            if isinstance(e, Iface) and (e.tid == OPERR or implements_error(ex, e)):
                cause = e
    return mkerr(ex, args[0], cause if fid == "fmt.Errorf" and b"%w" in bytes(x for x in args[0] if not is_sym(x)) else None)


def implements_error(ex, e):
    if e.tid == OPERR:
        return True
    if isinstance(e.tid, str):
        return False
    ms = ex.types[e.tid].get("methods") or {}
    return "Error" in ms


@exact("github.com/pkg/errors.Wrapf", "github.com/pkg/errors.Wrap", "github.com/pkg/errors.WithMessage",
       "github.com/pkg/errors.WithStack")
def errors_wrapf(ex, g, fid, args):
    if args[0] is None:
        return None
    return mkerr(ex, args[1] if len(args) > 1 and isinstance(args[1], tuple) else gostr("wrapped"), args[0])


@exact("op:error.Error")
def operr_error(ex, g, fid, args):
    return args[0].msg


@exact("op:error.Unwrap")
def operr_unwrap(ex, g, fid, args):
    return args[0].cause


def errors_is_impl(ex, err, target):
    # structural walk; real types with Is/Unwrap methods are not supported (none in the encoded code)
    n = 0
    while err is not None and n < 20:
        e = ex.eq(err, target)
        if e is True:
            return True
        if e is not False:
            if ex.branch(e):
                return True
        if isinstance(err, Iface) and err.tid == OPERR:
            err = err.val.cause
        else:
            ms = ex.types[err.tid].get("methods") or {} if isinstance(err.tid, int) else {}
            if "Unwrap" in ms or "Is" in ms:
                raise Unsupported("errors.Is on type with Unwrap/Is method: " + ex.types[err.tid]["str"])
            return False
        n += 1
    return False


@exact("errors.Is", "github.com/pkg/errors.Is")
def errors_is(ex, g, fid, args):
    return errors_is_impl(ex, args[0], args[1])


@exact("github.com/pkg/errors.Cause")
def errors_cause(ex, g, fid, args):
    err = args[0]
    while isinstance(err, Iface) and err.tid == OPERR and err.val.cause is not None:
        err = err.val.cause
    return err


# ------------------------------------------------------------------ sync
def cell(p):
    return p.cont[p.idx]


def park_retry(ex, g):
    """park current goroutine so that the current call instruction is re-executed on wake"""
    fr = g.stack[-1]
    fr.ii -= 1
    g.status = "parked"
    g.wait = {"chans": [], "finish": None, "where": ex.where(g), "retry": True}


def wake_retriers(ex):
    for x in ex.gs:
        if x.status == "parked" and x.wait is not None and x.wait.get("retry"):
            x.status = "run"
            x.wait = None
            x.yielded = True


def multi(ex):
    return len([x for x in ex.gs if x.status != "done"]) > 1


@exact("(*sync.Mutex).Lock")
def mutex_lock(ex, g, fid, args):
    m = cell(args[0])
    if multi(ex) and conc.maybe_yield(ex, g, g.stack[-1]):
        return None
    if m[0] != 0:
        if not multi(ex):
            raise PathEnd("blocked", "self-deadlock on mutex at " + ex.where())
        park_retry(ex, g)
        return None
    m[0] = 1
    return None


@exact("(*sync.Mutex).TryLock")
def mutex_trylock(ex, g, fid, args):
    m = cell(args[0])
    if m[0] != 0:
        return False
    m[0] = 1
    return True


@exact("(*sync.Mutex).Unlock")
def mutex_unlock(ex, g, fid, args):
    m = cell(args[0])
    if m[0] == 0:
        raise GoPanic("unlock-of-unlocked-mutex")
    m[0] = 0
    wake_retriers(ex)
    return None


# RWMutex{w Mutex, writerSem, readerSem uint32, readerCount, readerWait atomic.Int32}
def rw_readers(m):
    rc = m[3]
    return rc  # atomic.Int32 struct: [_ noCopy, v int32]


@exact("(*sync.RWMutex).RLock")
def rw_rlock(ex, g, fid, args):
    m = cell(args[0])
    if multi(ex) and conc.maybe_yield(ex, g, g.stack[-1]):
        return None
    if m[0][0] != 0:
        if not multi(ex):
            raise PathEnd("blocked", "self-deadlock on rwmutex at " + ex.where())
        park_retry(ex, g)
        return None
    m[3][-1] += 1
    return None


@exact("(*sync.RWMutex).RUnlock")
def rw_runlock(ex, g, fid, args):
    m = cell(args[0])
    if m[3][-1] <= 0:
        raise GoPanic("runlock-of-unlocked-rwmutex")
    m[3][-1] -= 1
    wake_retriers(ex)
    return None


@exact("(*sync.RWMutex).Lock")
def rw_lock(ex, g, fid, args):
    m = cell(args[0])
    if multi(ex) and conc.maybe_yield(ex, g, g.stack[-1]):
        return None
    if m[0][0] != 0 or m[3][-1] != 0:
        if not multi(ex):
            raise PathEnd("blocked", "self-deadlock on rwmutex at " + ex.where())
        park_retry(ex, g)
        return None
    m[0][0] = 1
    return None


@exact("(*sync.RWMutex).Unlock")
def rw_unlock(ex, g, fid, args):
    m = cell(args[0])
    if m[0][0] == 0:
        raise GoPanic("unlock-of-unlocked-rwmutex")
    m[0][0] = 0
    wake_retriers(ex)
    return None


@exact("(*sync.Once).Do")
def once_do(ex, g, fid, args):
    o = cell(args[0])   # Once{done atomic.Uint32 | uint32, m Mutex}
    done = o[0]
    isdone = done[-1] if type(done) is list else done
    if multi(ex) and conc.maybe_yield(ex, g, g.stack[-1]):
        return None
    if isdone != 0:
        return None
    if o[1][0] != 0:
        if not multi(ex):
            raise PathEnd("blocked", "recursive Once.Do at " + ex.where())
        park_retry(ex, g)
        return None
    o[1][0] = 1

    def then(_):
        if type(o[0]) is list:
            o[0][-1] = 1
        else:
            o[0] = 1
        o[1][0] = 0
        wake_retriers(ex)
        return None

    return CallReq(args[1], [], then)


@exact("(*sync.WaitGroup).Add")
def wg_add(ex, g, fid, args):
    w = cell(args[0])
    st = ex.wg.setdefault(id(w), [0])
    st[0] += args[1]
    if st[0] < 0:
        raise GoPanic("negative-waitgroup-counter")
    if st[0] == 0:
        wake_retriers(ex)
    return None


@exact("(*sync.WaitGroup).Done")
def wg_done(ex, g, fid, args):
    return wg_add(ex, g, fid, [args[0], -1])


@exact("(*sync.WaitGroup).Wait")
def wg_wait(ex, g, fid, args):
    w = cell(args[0])
    st = ex.wg.setdefault(id(w), [0])
    if st[0] != 0:
        park_retry(ex, g)
    return None


# atomics: plain memory operations (scheduler switches only at visible operations)
@pattern(r"^sync/atomic\.(Add|Load|Store|Swap|CompareAndSwap)(Int32|Int64|Uint32|Uint64|Uintptr)$")
def atomic_fn(ex, g, fid, args):
    m = re.match(r"^sync/atomic\.(Add|Load|Store|Swap|CompareAndSwap)(Int32|Int64|Uint32|Uint64|Uintptr)$", fid)
    op, ty = m.group(1), m.group(2)
    bits = 32 if "32" in ty else 64
    signed = ty.startswith("Int")
    return atomic_do(ex, args[0], op, args[1:], bits, signed)


def atomic_do(ex, p, op, rest, bits, signed):
    from .exec import arith
    old = ex.load(p) if type(p.idx) is int else None
    if op == "Load":
        return old
    if op == "Store":
        ex.store(p, rest[0])
        return None
    if op == "Add":
        nv = arith(ex, "+", old, rest[0], bits, signed)
        ex.store(p, nv)
        return nv
    if op == "Swap":
        ex.store(p, rest[0])
        return old
    if op == "CompareAndSwap":
        e = ex.eq(old, rest[0])
        if ex.branch(e):
            ex.store(p, rest[1])
            return True
        return False
    raise Unsupported("atomic " + op)


@pattern(r"^\(\*sync/atomic\.(Int32|Int64|Uint32|Uint64|Bool)\)\.(Add|Load|Store|Swap|CompareAndSwap)$")
def atomic_method(ex, g, fid, args):
    m = re.match(r"^\(\*sync/atomic\.(Int32|Int64|Uint32|Uint64|Bool)\)\.(Add|Load|Store|Swap|CompareAndSwap)$", fid)
    ty, op = m.group(1), m.group(2)
    st = cell(args[0])
    p = Ptr(st, len(st) - 1)
    if ty == "Bool":
        old = st[-1]
        if op == "Load":
            return old != 0 if not isinstance(old, bool) else old
        if op == "Store":
            st[-1] = 1 if args[1] is True else (0 if args[1] is False else z3.If(args[1], z3.BitVecVal(1, 32), z3.BitVecVal(0, 32)))
            return None
        raise Unsupported("atomic.Bool." + op)
    bits = 32 if "32" in ty else 64
    return atomic_do(ex, p, op, args[1:], bits, ty.startswith("Int"))


# ------------------------------------------------------------------ bytes / strings leaves
def bytes_of(x):
    if isinstance(x, tuple):
        return list(x)
    return slice_elems(x)


def cmp3(ex, a, b):
    """three-way compare of byte lists as an int term (-1,0,1)"""
    lt = str_less(ex, tuple(a), tuple(b))
    gt = str_less(ex, tuple(b), tuple(a))
    if isinstance(lt, bool) and isinstance(gt, bool):
        return -1 if lt else (1 if gt else 0)
    r = ite(lt, norm(-1, 64, True), ite(gt, 1, 0, 64), 64)
    return r


@exact("internal/bytealg.Compare", "bytes.Compare")
def bytealg_compare(ex, g, fid, args):
    return cmp3(ex, bytes_of(args[0]), bytes_of(args[1]))


@exact("strings.Compare", "internal/bytealg.CompareString")
def strings_compare(ex, g, fid, args):
    return cmp3(ex, list(args[0]), list(args[1]))


@exact("bytes.Equal", "internal/bytealg.Equal")
def bytes_equal(ex, g, fid, args):
    return ex.eq(tuple(bytes_of(args[0])), tuple(bytes_of(args[1])))


@exact("internal/bytealg.IndexByte", "internal/bytealg.IndexByteString", "bytes.IndexByte", "strings.IndexByte")
def bytealg_indexbyte(ex, g, fid, args):
    hay = bytes_of(args[0])
    c = args[1]
    for k, b in enumerate(hay):
        e = ex.eq(b, c)
        if e is True or (e is not False and ex.branch(e)):
            return k
    return -1


@exact("internal/bytealg.Count", "internal/bytealg.CountString")
def bytealg_count(ex, g, fid, args):
    hay = bytes_of(args[0])
    c = args[1]
    n = 0
    for b in hay:
        e = ex.eq(b, c)
        if e is True or (e is not False and ex.branch(e)):
            n += 1
    return n


@exact("internal/bytealg.Index", "internal/bytealg.IndexString", "bytes.Index", "strings.Index")
def bytealg_index(ex, g, fid, args):
    hay = bytes_of(args[0])
    nd = bytes_of(args[1])
    n = len(nd)
    for k in range(0, len(hay) - n + 1):
        e = ex.eq(tuple(hay[k:k + n]), tuple(nd))
        if e is True or (e is not False and ex.branch(e)):
            return k
    return -1


@exact("bytes.Clone", "slices.Clone[[]byte byte]")
def bytes_clone(ex, g, fid, args):
    s = args[0]
    if s.arr is None:
        return Slice(None, 0, 0, 0)
    arr = list(slice_elems(s))
    return Slice(arr, 0, len(arr), len(arr))


@exact("internal/bytealg.MakeNoZero")
def bytealg_makenozero(ex, g, fid, args):
    n = args[0]
    return Slice([0] * n, 0, n, n)


@exact("internal/cpu.Initialize", "internal/cpu.doinit")
def noop(ex, g, fid, args):
    return None


@pattern(r"^math/bits\.(LeadingZeros|TrailingZeros|Len|OnesCount)(8|16|32|64)?$")
def bits_fn(ex, g, fid, args):
    m = re.match(r"^math/bits\.(LeadingZeros|TrailingZeros|Len|OnesCount)(8|16|32|64)?$", fid)
    op = m.group(1)
    bits = int(m.group(2) or 64)
    x = args[0]
    if not is_sym(x):
        x &= (1 << bits) - 1
        if op == "LeadingZeros":
            return bits - x.bit_length()
        if op == "Len":
            return x.bit_length()
        if op == "OnesCount":
            return bin(x).count("1")
        if op == "TrailingZeros":
            return bits if x == 0 else (x & -x).bit_length() - 1
    if op in ("LeadingZeros", "Len"):
        # length = position of highest set bit
        res = z3.BitVecVal(0, 64)
        for k in range(bits):
            res = z3.If(z3.Extract(k, k, x) == 1, z3.BitVecVal(k + 1, 64), res)
        if op == "Len":
            return simp(res)
        return simp(z3.BitVecVal(bits, 64) - res)
    if op == "TrailingZeros":
        res = z3.BitVecVal(bits, 64)
        for k in range(bits - 1, -1, -1):
            res = z3.If(z3.Extract(k, k, x) == 1, z3.BitVecVal(k, 64), res)
        return simp(res)
    if op == "OnesCount":
        res = z3.BitVecVal(0, 64)
        for k in range(bits):
            res = res + z3.ZeroExt(63, z3.Extract(k, k, x))
        return simp(res)


# ------------------------------------------------------------------ logging & formatting: empty bodies
@pattern(r"^(go\.brendoncarroll\.net/stdctx/logctx|log|go\.uber\.org/zap)\.")
def log_noop(ex, g, fid, args):
    fn = ex.funcs.get(fid)
    if fn is not None:
        res = ex.types[fn["sig"]]["results"]
        if len(res) == 1:
            return ex.zero(res[0])
        if len(res) > 1:
            return Tup(ex.zero(r) for r in res)
    return None


@pattern(r"^\(\*?(go\.uber\.org/zap|log)\.[A-Za-z]+\)\.")
def log_method_noop(ex, g, fid, args):
    return log_noop(ex, g, fid, args)


@exact("fmt.Sprintf", "fmt.Sprint", "fmt.Sprintln")
def fmt_sprintf(ex, g, fid, args):
    # "%s@%s" (address composition) is modelled exactly; any other format is only ever used for
    # messages and is not modelled beyond being some string
    if fid == "fmt.Sprintf":
        if args[0] == gostr("%s@%s"):
            parts = []
            for a in slice_elems(args[1]):
                v = a.val if isinstance(a, Iface) else a
                if isinstance(v, tuple):
                    parts.append(v)
                elif isinstance(v, Slice):
                    parts.append(tuple(slice_elems(v)))
                else:
                    raise Unsupported("fmt.Sprintf(%s@%s) with a non-text operand")
            if len(parts) != 2:
                raise Unsupported("fmt.Sprintf(%s@%s) operand count")
            return parts[0] + (64,) + parts[1]
        return args[0]
    return gostr("<fmt>")


@exact("fmt.Println", "fmt.Printf", "fmt.Print")
def fmt_print(ex, g, fid, args):
    return Tup([0, None])


# ------------------------------------------------------------------ context
class CtxObj:
    def __init__(self):
        self.done = None
        self.err = None
        self.parent = None


@exact("context.Background", "context.TODO")
def ctx_background(ex, g, fid, args):
    return Iface("op:ctx", ex.bgctx)


@exact("op:ctx.Done")
def ctx_done(ex, g, fid, args):
    return args[0].done


@exact("op:ctx.Err")
def ctx_err(ex, g, fid, args):
    return args[0].err


@exact("op:ctx.Value")
def ctx_value(ex, g, fid, args):
    return None


@exact("op:ctx.Deadline")
def ctx_deadline(ex, g, fid, args):
    return Tup([[0, 0, None], False])


def cancel_noop_closure():
    return Closure("op:cancel", ())


@exact("op:cancel")
def op_cancel(ex, g, fid, args):
    return None


@exact("context.WithCancel")
def ctx_withcancel(ex, g, fid, args):
    # the derived context is the parent itself; cancellation through the returned func is not modelled
    # (harnesses cancel through their own stub contexts)
    return Tup([args[0], cancel_noop_closure()])


@exact("context.WithTimeout", "context.WithDeadline")
def ctx_withtimeout(ex, g, fid, args):
    return Tup([args[0], cancel_noop_closure()])


@exact("context.WithValue")
def ctx_withvalue(ex, g, fid, args):
    return args[0]


@exact("context.Cause")
def ctx_cause(ex, g, fid, args):
    raise Unsupported("context.Cause")


def install(ex):
    ex.bgctx = CtxObj()
    ex.wg = {}


Executor.install_env = install
