// ssa2json: loads packages of /repo (plus overlay harness files), builds go/ssa
// with generics instantiated and dumps the closure reachable from the harness
// roots (functions named VH_*) as JSON for the symbolic executor.
package main

import (
	"encoding/hex"
	"encoding/json"
	"flag"
	"fmt"
	"go/constant"
	"go/token"
	"go/types"
	"os"
	"path/filepath"
	"sort"
	"strings"

	"golang.org/x/tools/go/packages"
	"golang.org/x/tools/go/ssa"
	"golang.org/x/tools/go/ssa/ssautil"
	"golang.org/x/tools/go/types/typeutil"
)

type J = map[string]any

type dumper struct {
	prog     *ssa.Program
	fset     *token.FileSet
	tmap     typeutil.Map
	types    []J
	funcs    map[*ssa.Function]string
	fnames   map[string]*ssa.Function
	queue    []*ssa.Function
	out      map[string]J
	globals  map[string]J
	deny     []string
	initpkgs []string
	mstypes  []types.Type // types needing method tables
	msdone   map[int]bool
}

func (d *dumper) denied(fn *ssa.Function) bool {
	p := ""
	if fn.Pkg != nil {
		p = fn.Pkg.Pkg.Path()
	} else if fn.Origin() != nil && fn.Origin().Pkg != nil {
		p = fn.Origin().Pkg.Pkg.Path()
	} else if o := fn.Object(); o != nil && o.Pkg() != nil {
		p = o.Pkg().Path()
	} else if fn.Parent() != nil {
		return d.denied(fn.Parent())
	}
	for _, dp := range d.deny {
		if p == dp || strings.HasPrefix(p, dp+"/") {
			return true
		}
	}
	return false
}

func (d *dumper) initAllowed(fn *ssa.Function) bool {
	p := fn.Pkg.Pkg.Path()
	for _, dp := range d.initpkgs {
		if p == dp || strings.HasPrefix(p, dp+"/") {
			return true
		}
	}
	return false
}

func (d *dumper) fid(fn *ssa.Function) string {
	if id, ok := d.funcs[fn]; ok {
		return id
	}
	id := fn.String()
	if fn.Synthetic != "" && fn.Pkg == nil && fn.Origin() == nil {
		// wrappers/bounds/thunks: make sure distinct
	}
	base := id
	for n := 1; ; n++ {
		if _, ok := d.fnames[id]; !ok {
			break
		}
		id = fmt.Sprintf("%s#%d", base, n)
	}
	d.funcs[fn] = id
	d.fnames[id] = fn
	if fn.Synthetic == "package initializer" && !d.initAllowed(fn) {
		d.out[id] = J{"name": "init", "extern": true, "pkg": fn.Pkg.Pkg.Path(), "pkginit": true}
		return id
	}
	d.queue = append(d.queue, fn)
	return id
}

func (d *dumper) tid(t types.Type) int {
	if t == nil {
		return -1
	}
	if fmt.Sprintf("%T", t) == "*ssa.opaqueType" {
		return -2
	}
	if v := d.tmap.At(t); v != nil {
		return v.(int)
	}
	id := len(d.types)
	d.tmap.Set(t, id)
	e := J{"str": types.TypeString(t, nil)}
	d.types = append(d.types, e)
	if n, ok := t.(*types.Named); ok {
		e["name"] = types.TypeString(t, nil)
		_ = n
	}
	if _, ok := t.(*types.Alias); ok {
		t = types.Unalias(t)
		e["alias"] = d.tid(t)
	}
	switch u := t.Underlying().(type) {
	case *types.Basic:
		info := u.Info()
		switch {
		case u.Kind() == types.UnsafePointer:
			e["kind"] = "unsafeptr"
		case info&types.IsBoolean != 0:
			e["kind"] = "bool"
		case info&types.IsInteger != 0:
			e["kind"] = "int"
			bits := 64
			switch u.Kind() {
			case types.Int8, types.Uint8:
				bits = 8
			case types.Int16, types.Uint16:
				bits = 16
			case types.Int32, types.Uint32:
				bits = 32
			}
			e["bits"] = bits
			e["signed"] = info&types.IsUnsigned == 0
		case info&types.IsFloat != 0:
			e["kind"] = "float"
		case info&types.IsComplex != 0:
			e["kind"] = "complex"
		case info&types.IsString != 0:
			e["kind"] = "string"
		case u.Kind() == types.UntypedNil:
			e["kind"] = "nil"
		default:
			e["kind"] = "invalid"
		}
	case *types.Pointer:
		e["kind"] = "ptr"
		e["elem"] = d.tid(u.Elem())
	case *types.Slice:
		e["kind"] = "slice"
		e["elem"] = d.tid(u.Elem())
	case *types.Array:
		e["kind"] = "array"
		e["elem"] = d.tid(u.Elem())
		e["len"] = u.Len()
	case *types.Struct:
		e["kind"] = "struct"
		fs := []J{}
		for i := 0; i < u.NumFields(); i++ {
			f := u.Field(i)
			fs = append(fs, J{"name": f.Name(), "type": d.tid(f.Type()), "embedded": f.Embedded()})
		}
		e["fields"] = fs
	case *types.Interface:
		e["kind"] = "iface"
		ms := []string{}
		for i := 0; i < u.NumMethods(); i++ {
			m := u.Method(i)
			name := m.Name()
			if !m.Exported() && m.Pkg() != nil {
				name = m.Pkg().Path() + "." + name
			}
			ms = append(ms, name)
		}
		e["imethods"] = ms
	case *types.Map:
		e["kind"] = "map"
		e["key"] = d.tid(u.Key())
		e["elem"] = d.tid(u.Elem())
	case *types.Chan:
		e["kind"] = "chan"
		e["elem"] = d.tid(u.Elem())
	case *types.Signature:
		e["kind"] = "func"
		ps := []int{}
		for i := 0; i < u.Params().Len(); i++ {
			ps = append(ps, d.tid(u.Params().At(i).Type()))
		}
		rs := []int{}
		for i := 0; i < u.Results().Len(); i++ {
			rs = append(rs, d.tid(u.Results().At(i).Type()))
		}
		e["params"] = ps
		e["results"] = rs
		e["variadic"] = u.Variadic()
	case *types.Tuple:
		e["kind"] = "tuple"
		es := []int{}
		for i := 0; i < u.Len(); i++ {
			es = append(es, d.tid(u.At(i).Type()))
		}
		e["elems"] = es
	case *types.TypeParam:
		e["kind"] = "typeparam"
	default:
		e["kind"] = fmt.Sprintf("unknown:%T", u)
	}
	return id
}

// needMethods records that values of dynamic type t can be put in interfaces.
func (d *dumper) needMethods(t types.Type) {
	id := d.tid(t)
	if d.msdone[id] {
		return
	}
	d.msdone[id] = true
	if types.IsInterface(t) {
		return
	}
	ms := d.prog.MethodSets.MethodSet(t)
	tbl := J{}
	for i := 0; i < ms.Len(); i++ {
		sel := ms.At(i)
		fn := d.prog.MethodValue(sel)
		if fn == nil {
			continue
		}
		name := sel.Obj().Name()
		if !sel.Obj().Exported() && sel.Obj().Pkg() != nil {
			// unexported names are package-qualified for interface matching
			name = sel.Obj().Pkg().Path() + "." + name
		}
		tbl[name] = d.fid(fn)
	}
	d.types[id]["methods"] = tbl
}

func (d *dumper) pos(p token.Pos) string {
	if !p.IsValid() {
		return ""
	}
	ps := d.fset.Position(p)
	return fmt.Sprintf("%s:%d", filepath.Base(ps.Filename), ps.Line)
}

func (d *dumper) ref(v ssa.Value) any {
	switch v := v.(type) {
	case nil:
		return nil
	case *ssa.Const:
		t := d.tid(v.Type())
		if v.Value == nil {
			return []any{"c", t, nil}
		}
		switch v.Value.Kind() {
		case constant.Bool:
			return []any{"c", t, constant.BoolVal(v.Value)}
		case constant.String:
			return []any{"c", t, "s:" + hex.EncodeToString([]byte(constant.StringVal(v.Value)))}
		case constant.Int:
			return []any{"c", t, "i:" + v.Value.ExactString()}
		case constant.Float:
			f, _ := constant.Float64Val(v.Value)
			// integer-typed consts always have Int kind; this is a real float
			return []any{"c", t, fmt.Sprintf("f:%v", f)}
		default:
			return []any{"c", t, "x:" + v.Value.ExactString()}
		}
	case *ssa.Global:
		name := v.Pkg.Pkg.Path() + "." + v.Name()
		if _, ok := d.globals[name]; !ok {
			d.globals[name] = J{"type": d.tid(v.Type()), "pkg": v.Pkg.Pkg.Path()}
		}
		return []any{"g", name}
	case *ssa.Function:
		return []any{"f", d.fid(v)}
	case *ssa.Builtin:
		return []any{"b", v.Name()}
	case *ssa.Parameter:
		for i, p := range v.Parent().Params {
			if p == v {
				return []any{"p", i}
			}
		}
		panic("param not found")
	case *ssa.FreeVar:
		for i, p := range v.Parent().FreeVars {
			if p == v {
				return []any{"v", i}
			}
		}
		panic("freevar not found")
	default:
		return []any{"r", v.Name()}
	}
}

func (d *dumper) refs(vs []ssa.Value) []any {
	out := make([]any, len(vs))
	for i, v := range vs {
		out[i] = d.ref(v)
	}
	return out
}

func (d *dumper) call(c *ssa.CallCommon) J {
	j := J{"args": d.refs(c.Args)}
	if c.IsInvoke() {
		j["invoke"] = true
		j["recv"] = d.ref(c.Value)
		name := c.Method.Name()
		if !c.Method.Exported() && c.Method.Pkg() != nil {
			name = c.Method.Pkg().Path() + "." + name
		}
		j["method"] = name
		j["itype"] = d.tid(c.Value.Type())
	} else {
		j["fn"] = d.ref(c.Value)
	}
	j["sig"] = d.tid(c.Signature())
	return j
}

func (d *dumper) instr(ins ssa.Instruction) J {
	j := J{}
	if v, ok := ins.(ssa.Value); ok {
		j["reg"] = v.Name()
		j["type"] = d.tid(v.Type())
	}
	if p := ins.Pos(); p.IsValid() {
		j["pos"] = d.pos(p)
	}
	switch x := ins.(type) {
	case *ssa.Alloc:
		j["op"] = "Alloc"
		j["heap"] = x.Heap
		j["elem"] = d.tid(x.Type().Underlying().(*types.Pointer).Elem())
	case *ssa.BinOp:
		j["op"] = "BinOp"
		j["tok"] = x.Op.String()
		j["x"] = d.ref(x.X)
		j["y"] = d.ref(x.Y)
		j["xt"] = d.tid(x.X.Type())
		j["yt"] = d.tid(x.Y.Type())
	case *ssa.Call:
		j["op"] = "Call"
		j["call"] = d.call(&x.Call)
	case *ssa.ChangeInterface:
		j["op"] = "ChangeInterface"
		j["x"] = d.ref(x.X)
	case *ssa.ChangeType:
		j["op"] = "ChangeType"
		j["x"] = d.ref(x.X)
	case *ssa.Convert:
		j["op"] = "Convert"
		j["x"] = d.ref(x.X)
		j["xt"] = d.tid(x.X.Type())
	case *ssa.MultiConvert:
		j["op"] = "MultiConvert"
		j["x"] = d.ref(x.X)
		j["xt"] = d.tid(x.X.Type())
	case *ssa.DebugRef:
		return nil
	case *ssa.Defer:
		j["op"] = "Defer"
		j["call"] = d.call(&x.Call)
	case *ssa.Extract:
		j["op"] = "Extract"
		j["x"] = d.ref(x.Tuple)
		j["index"] = x.Index
	case *ssa.Field:
		j["op"] = "Field"
		j["x"] = d.ref(x.X)
		j["field"] = x.Field
	case *ssa.FieldAddr:
		j["op"] = "FieldAddr"
		j["x"] = d.ref(x.X)
		j["field"] = x.Field
	case *ssa.Go:
		j["op"] = "Go"
		j["call"] = d.call(&x.Call)
	case *ssa.If:
		j["op"] = "If"
		j["cond"] = d.ref(x.Cond)
	case *ssa.Index:
		j["op"] = "Index"
		j["x"] = d.ref(x.X)
		j["it"] = d.tid(x.Index.Type())
		j["index"] = d.ref(x.Index)
		j["xt"] = d.tid(x.X.Type())
	case *ssa.IndexAddr:
		j["op"] = "IndexAddr"
		j["x"] = d.ref(x.X)
		j["it"] = d.tid(x.Index.Type())
		j["index"] = d.ref(x.Index)
		j["xt"] = d.tid(x.X.Type())
	case *ssa.Jump:
		j["op"] = "Jump"
	case *ssa.Lookup:
		j["op"] = "Lookup"
		j["x"] = d.ref(x.X)
		j["it"] = d.tid(x.Index.Type())
		j["index"] = d.ref(x.Index)
		j["commaok"] = x.CommaOk
		j["xt"] = d.tid(x.X.Type())
	case *ssa.MakeChan:
		j["op"] = "MakeChan"
		j["size"] = d.ref(x.Size)
	case *ssa.MakeClosure:
		j["op"] = "MakeClosure"
		j["fn"] = d.ref(x.Fn)
		j["bindings"] = d.refs(x.Bindings)
	case *ssa.MakeInterface:
		j["op"] = "MakeInterface"
		j["x"] = d.ref(x.X)
		j["xt"] = d.tid(x.X.Type())
		d.mstypes = append(d.mstypes, x.X.Type())
	case *ssa.MakeMap:
		j["op"] = "MakeMap"
	case *ssa.MakeSlice:
		j["op"] = "MakeSlice"
		j["len"] = d.ref(x.Len)
		j["cap"] = d.ref(x.Cap)
		j["lent"] = d.tid(x.Len.Type())
		j["capt"] = d.tid(x.Cap.Type())
	case *ssa.MapUpdate:
		j["op"] = "MapUpdate"
		j["map"] = d.ref(x.Map)
		j["key"] = d.ref(x.Key)
		j["value"] = d.ref(x.Value)
	case *ssa.Next:
		j["op"] = "Next"
		j["iter"] = d.ref(x.Iter)
		j["isstring"] = x.IsString
	case *ssa.Panic:
		j["op"] = "Panic"
		j["x"] = d.ref(x.X)
	case *ssa.Phi:
		j["op"] = "Phi"
		j["edges"] = d.refs(x.Edges)
	case *ssa.Range:
		j["op"] = "Range"
		j["x"] = d.ref(x.X)
		j["xt"] = d.tid(x.X.Type())
	case *ssa.Return:
		j["op"] = "Return"
		j["results"] = d.refs(x.Results)
	case *ssa.RunDefers:
		j["op"] = "RunDefers"
	case *ssa.Select:
		j["op"] = "Select"
		j["blocking"] = x.Blocking
		sts := []J{}
		for _, st := range x.States {
			sts = append(sts, J{"send": st.Dir == types.SendOnly, "chan": d.ref(st.Chan), "val": d.ref(st.Send)})
		}
		j["states"] = sts
	case *ssa.Send:
		j["op"] = "Send"
		j["chan"] = d.ref(x.Chan)
		j["x"] = d.ref(x.X)
	case *ssa.Slice:
		j["op"] = "Slice"
		j["x"] = d.ref(x.X)
		j["xt"] = d.tid(x.X.Type())
		j["low"] = d.ref(x.Low)
		j["high"] = d.ref(x.High)
		j["max"] = d.ref(x.Max)
		if x.Low != nil {
			j["lowt"] = d.tid(x.Low.Type())
		}
		if x.High != nil {
			j["hight"] = d.tid(x.High.Type())
		}
		if x.Max != nil {
			j["maxt"] = d.tid(x.Max.Type())
		}
	case *ssa.SliceToArrayPointer:
		j["op"] = "SliceToArrayPointer"
		j["x"] = d.ref(x.X)
	case *ssa.Store:
		j["op"] = "Store"
		j["addr"] = d.ref(x.Addr)
		j["val"] = d.ref(x.Val)
		j["vt"] = d.tid(x.Val.Type())
	case *ssa.TypeAssert:
		j["op"] = "TypeAssert"
		j["x"] = d.ref(x.X)
		j["asserted"] = d.tid(x.AssertedType)
		j["commaok"] = x.CommaOk
	case *ssa.UnOp:
		j["op"] = "UnOp"
		j["tok"] = x.Op.String()
		j["x"] = d.ref(x.X)
		j["commaok"] = x.CommaOk
		j["xt"] = d.tid(x.X.Type())
	default:
		j["op"] = fmt.Sprintf("Unknown:%T", ins)
	}
	return j
}

func (d *dumper) dumpFunc(fn *ssa.Function) {
	id := d.funcs[fn]
	j := J{"name": fn.Name(), "sig": d.tid(fn.Signature)}
	if fn.Pkg != nil {
		j["pkg"] = fn.Pkg.Pkg.Path()
	} else if o := fn.Origin(); o != nil && o.Pkg != nil {
		j["pkg"] = o.Pkg.Pkg.Path()
	}
	if o := fn.Origin(); o != nil {
		j["origin"] = o.String()
	}
	if fn.Synthetic != "" {
		j["synthetic"] = fn.Synthetic
	}
	j["pos"] = d.pos(fn.Pos())
	np := []int{}
	for _, p := range fn.Params {
		np = append(np, d.tid(p.Type()))
	}
	j["params"] = np
	nf := []int{}
	for _, p := range fn.FreeVars {
		nf = append(nf, d.tid(p.Type()))
	}
	j["freevars"] = nf
	if fn.Blocks == nil || d.denied(fn) {
		j["extern"] = true
		d.out[id] = j
		return
	}
	if fn.Recover != nil {
		j["recover"] = fn.Recover.Index
	}
	blocks := []J{}
	for _, b := range fn.Blocks {
		ins := []J{}
		for _, in := range b.Instrs {
			if ji := d.instr(in); ji != nil {
				ins = append(ins, ji)
			}
		}
		succs := []int{}
		for _, s := range b.Succs {
			succs = append(succs, s.Index)
		}
		preds := []int{}
		for _, s := range b.Preds {
			preds = append(preds, s.Index)
		}
		blocks = append(blocks, J{"instrs": ins, "succs": succs, "preds": preds, "comment": b.Comment})
	}
	j["blocks"] = blocks
	d.out[id] = j
}

func main() {
	repo := flag.String("repo", "/repo", "repository root")
	overlayDir := flag.String("overlay", "", "directory tree mirrored onto the repo (harness files)")
	out := flag.String("o", "-", "output file")
	roots := flag.String("roots", "VH_", "prefix of root function names")
	deny := flag.String("deny", "", "comma separated package path prefixes not to descend into")
	initpkgs := flag.String("initpkgs", "go.brendoncarroll.net/p2p,encoding/base64,encoding/binary,errors,io,golang.zx2c4.com/wireguard/replay,go.brendoncarroll.net/tai64", "package path prefixes whose init functions are dumped")
	extra := flag.String("extra", "", "comma separated extra function ids (package-level funcs as pkgpath.Name) to include")
	flag.Parse()
	patterns := flag.Args()

	overlay := map[string][]byte{}
	if *overlayDir != "" {
		filepath.Walk(*overlayDir, func(p string, info os.FileInfo, err error) error {
			if err != nil || info.IsDir() || !strings.HasSuffix(p, ".go") || strings.HasSuffix(p, "_test.go") {
				return nil
			}
			rel, _ := filepath.Rel(*overlayDir, p)
			b, _ := os.ReadFile(p)
			overlay[filepath.Join(*repo, rel)] = b
			return nil
		})
	}
	cfg := &packages.Config{
		Mode:    packages.LoadAllSyntax,
		Dir:     *repo,
		Overlay: overlay,
		Env:     append(os.Environ(), "GOFLAGS=-mod=mod", "GOPROXY=off", "GOSUMDB=off", "GOTOOLCHAIN=local"),
	}
	pkgs, err := packages.Load(cfg, patterns...)
	if err != nil {
		fmt.Fprintln(os.Stderr, "load:", err)
		os.Exit(2)
	}
	bad := false
	packages.Visit(pkgs, nil, func(p *packages.Package) {
		for _, e := range p.Errors {
			fmt.Fprintln(os.Stderr, "pkg error:", e)
			bad = true
		}
	})
	if bad {
		os.Exit(2)
	}
	prog, spkgs := ssautil.AllPackages(pkgs, ssa.InstantiateGenerics)
	prog.Build()

	d := &dumper{prog: prog, fset: prog.Fset, funcs: map[*ssa.Function]string{}, fnames: map[string]*ssa.Function{},
		out: map[string]J{}, globals: map[string]J{}, msdone: map[int]bool{}}
	if *deny != "" {
		d.deny = strings.Split(*deny, ",")
	}
	d.initpkgs = strings.Split(*initpkgs, ",")
	rootIDs := []string{}
	for _, sp := range spkgs {
		if sp == nil {
			continue
		}
		names := []string{}
		for name := range sp.Members {
			names = append(names, name)
		}
		sort.Strings(names)
		for _, name := range names {
			if fn, ok := sp.Members[name].(*ssa.Function); ok && strings.HasPrefix(name, *roots) {
				rootIDs = append(rootIDs, d.fid(fn))
			}
		}
	}
	// init functions of all packages in the import closure are made available
	inits := J{}
	for _, sp := range prog.AllPackages() {
		if fn := sp.Func("init"); fn != nil && d.initAllowed(fn) && !d.denied(fn) {
			inits[sp.Pkg.Path()] = d.fid(fn)
		}
	}
	if *extra != "" {
		for _, e := range strings.Split(*extra, ",") {
			i := strings.LastIndex(e, ".")
			if sp := prog.ImportedPackage(e[:i]); sp != nil {
				if fn := sp.Func(e[i+1:]); fn != nil {
					d.fid(fn)
				}
			}
		}
	}
	for len(d.queue) > 0 || len(d.mstypes) > 0 {
		for len(d.queue) > 0 {
			fn := d.queue[0]
			d.queue = d.queue[1:]
			d.dumpFunc(fn)
		}
		ts := d.mstypes
		d.mstypes = nil
		for _, t := range ts {
			d.needMethods(t)
		}
	}
	res := J{"types": d.types, "funcs": d.out, "globals": d.globals, "roots": rootIDs, "inits": inits}
	var w *os.File = os.Stdout
	if *out != "-" {
		w, err = os.Create(*out)
		if err != nil {
			panic(err)
		}
		defer w.Close()
	}
	enc := json.NewEncoder(w)
	if err := enc.Encode(res); err != nil {
		panic(err)
	}
	fmt.Fprintf(os.Stderr, "ssa2json: %d funcs, %d types, %d globals, %d roots\n", len(d.out), len(d.types), len(d.globals), len(rootIDs))
}
