#!/bin/sh
# run the scenario drivers of one package against /repo's current tree (overlay, nothing is written to /repo)
# usage: run.sh p/p2pke [-run regexp]
set -e
PD="$1"; shift
D=$(mktemp -d)
trap 'rm -rf "$D"' EXIT
python3 - "$PD" "$D" <<'PY'
import json,os,sys,glob
pd,d=sys.argv[1],sys.argv[2]
rep={}
for f in glob.glob('/verif/replay/scenarios/%s/*_test.go'%pd):
    rep[os.path.join('/repo',pd,os.path.basename(f))]=f
json.dump({"Replace":rep},open(os.path.join(d,'ov.json'),'w'))
PY
cd /repo && GOFLAGS=-mod=mod GOPROXY=off GOSUMDB=off GOTOOLCHAIN=local go test -vet=off -count=1 -overlay "$D/ov.json" "$@" ./$PD
