package p2pkeswarm

// Scenario driver (real keys, real channels, UDP loopback) for the C04 whitelist finding.

import (
	"context"
	"testing"
	"time"

	"go.brendoncarroll.net/p2p"
	"go.brendoncarroll.net/p2p/s/udpswarm"
)

// C04: a peer rejected by the whitelist never has a message delivered, also when the local
// application has itself addressed that peer (the swarm then holds a channel it dialled).
func TestVerifScenWhitelistAppliesToDialledChannels(t *testing.T) {
	ua, err := udpswarm.New("127.0.0.1:")
	if err != nil {
		t.Fatal(err)
	}
	ub, err := udpswarm.New("127.0.0.1:")
	if err != nil {
		t.Fatal(err)
	}
	a := New[udpswarm.Addr](ua, newTestKey(t, 0), WithWhitelist[udpswarm.Addr](func(Addr[udpswarm.Addr]) bool { return false }))
	b := New[udpswarm.Addr](ub, newTestKey(t, 1))
	defer a.Close()
	defer b.Close()
	ctx, cf := context.WithTimeout(context.Background(), 5*time.Second)
	defer cf()
	go p2p.DiscardTells[Addr[udpswarm.Addr]](ctx, b)
	// A (reject-all whitelist) addresses B: the swarm dials a channel to B
	if err := a.Tell(ctx, b.LocalAddrs()[0], p2p.IOVec{[]byte("hello")}); err != nil {
		t.Fatal(err)
	}
	// B answers over the established channel
	if err := b.Tell(ctx, a.LocalAddrs()[0], p2p.IOVec{[]byte("reply")}); err != nil {
		t.Fatal(err)
	}
	rctx, rcf := context.WithTimeout(context.Background(), 700*time.Millisecond)
	defer rcf()
	var m p2p.Message[Addr[udpswarm.Addr]]
	if err := p2p.Receive[Addr[udpswarm.Addr]](rctx, a, &m); err == nil {
		t.Fatalf("message %q from %v delivered although the whitelist rejects every peer", m.Payload, m.Src)
	}
}
