package p2pke

// Scenario drivers: real keys, real Noise, a captured transport. They reproduce natively the
// counterexamples that the abstract (engine-stubbed) p2pke harnesses report.

import (
	"context"
	"sync"
	"testing"
	"time"

	"go.brendoncarroll.net/p2p"
	"go.brendoncarroll.net/p2p/f/x509"
)

func vScenPair(t *testing.T, accept1, accept2 func(*x509.PublicKey) bool, keepAlive time.Duration, got2 func([]byte)) (c1, c2 *Channel, sent *int) {
	reg := x509.DefaultRegistry()
	var mu sync.Mutex
	n := 0
	c1 = NewChannel(ChannelConfig{Registry: reg, PrivateKey: newTestKey(t, 0), AcceptKey: accept1, Logger: newTestLogger(t), KeepAliveTimeout: keepAlive,
		Send: func(x []byte) {
			mu.Lock()
			if IsInitHello(x) {
				n++
			}
			mu.Unlock()
			out, _ := c2.Deliver(nil, x)
			if out != nil && got2 != nil {
				got2(out)
			}
		}})
	c2 = NewChannel(ChannelConfig{Registry: reg, PrivateKey: newTestKey(t, 1), AcceptKey: accept2, Logger: newTestLogger(t), KeepAliveTimeout: keepAlive,
		Send: func(x []byte) { c1.Deliver(nil, x) }})
	t.Cleanup(func() { c1.Close(); c2.Close() })
	return c1, c2, &n
}

// C05: an initiator whose acceptance predicate rejects every key must never report ready.
func TestVerifScenInitiatorHonoursAcceptKey(t *testing.T) {
	yes := func(*x509.PublicKey) bool { return true }
	no := func(*x509.PublicKey) bool { return false }
	c1, _, _ := vScenPair(t, no, yes, 0, nil)
	ctx, cf := context.WithTimeout(context.Background(), 700*time.Millisecond)
	defer cf()
	err := c1.Send(ctx, p2p.IOVec{[]byte("secret")})
	if err == nil {
		t.Fatalf("channel with reject-all predicate became ready and sent data to key %v", c1.RemoteKey())
	}
}

// C07: a session that keeps receiving authenticated data is not torn down for idleness.
func TestVerifScenKeepAliveRefreshedByData(t *testing.T) {
	yes := func(*x509.PublicKey) bool { return true }
	c1, c2, hellos := vScenPair(t, yes, yes, 300*time.Millisecond, func([]byte) {})
	ctx := context.Background()
	if err := c1.Send(ctx, p2p.IOVec{[]byte("x")}); err != nil {
		t.Fatal(err)
	}
	if err := c2.Send(ctx, p2p.IOVec{[]byte("y")}); err != nil {
		t.Fatal(err)
	}
	before := *hellos
	// steady traffic in both directions for 4 keep-alive intervals
	deadline := time.Now().Add(1200 * time.Millisecond)
	for time.Now().Before(deadline) {
		if err := c1.Send(ctx, p2p.IOVec{[]byte("x")}); err != nil {
			t.Fatal(err)
		}
		if err := c2.Send(ctx, p2p.IOVec{[]byte("y")}); err != nil {
			t.Fatal(err)
		}
		time.Sleep(20 * time.Millisecond)
	}
	if extra := *hellos - before; extra > 0 {
		t.Fatalf("%d new handshakes started although authenticated traffic never paused", extra)
	}
}
