#!/usr/bin/env python3
"""engine self-test: VH_SELFT_* must all hold, every VH_SELFF_* canary must be reported as a
natively reproducing violation. Exit 0 iff both are as expected."""
import os, re, subprocess, sys
V = os.path.dirname(os.path.dirname(os.path.abspath(__file__)))
def run(p):
    r = subprocess.run(["python3-vt", os.path.join(V, "checks", "check.py"), p, "--no-evidence"], capture_output=True, text=True, cwd=V)
    return r.returncode, r.stdout
rc, out = run("SELFT")
print(out[-1500:])
ok = rc == 0
rc2, out2 = run("SELFF")
print(out2[-2500:])
names = re.findall(r"^(VH_SELFF_\w+)\s+paths=\d+ (\{.*?\})", out2, re.M)
bad = [n for n, st in names if "'violation'" not in st and "'panic'" not in st]
if bad or not names or "did not reproduce" in out2 or rc2 != 1:
    print("SELFTEST: canaries not all caught:", bad, "rc", rc2)
    ok = False
print("SELFTEST", "OK" if ok else "FAILED")
sys.exit(0 if ok else 1)
