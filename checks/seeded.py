#!/usr/bin/env python3
"""seeded.py [ids...] : apply each /verif/seeded/<id>/patch.diff to /repo, run the quick check(s)
of the property it breaks (no evidence written), record whether a VIOLATION was raised, undo.
Writes /verif/seeded/RESULTS.json. /repo must be clean before and is clean afterwards."""
import json, os, subprocess, sys, time, glob
V = os.path.dirname(os.path.dirname(os.path.abspath(__file__)))
S = os.path.join(V, "seeded")


def sh(cmd, **kw):
    return subprocess.run(cmd, shell=True, capture_output=True, text=True, **kw)


def main():
    ids = sys.argv[1:] or sorted(d for d in os.listdir(S) if os.path.isdir(os.path.join(S, d)))
    if sh("git -C /repo status --porcelain").stdout.strip():
        print("refusing: /repo is not clean")
        return 2
    resf = os.path.join(S, "RESULTS.json")
    results = json.load(open(resf)) if os.path.exists(resf) else {}
    for i in ids:
        d = os.path.join(S, i)
        meta = json.load(open(os.path.join(d, "meta.json")))
        props = meta.get("checks") or [meta["property"]]
        r = sh("git -C /repo apply --whitespace=nowarn %s" % os.path.join(d, "patch.diff"))
        if r.returncode != 0:
            print(i, "patch does not apply:", r.stderr[-300:])
            results[i] = {"applied": False}
            continue
        try:
            out = {}
            for p in props:
                t0 = time.time()
                only = meta.get("only", {}).get(p)
                cmd = "cd %s && timeout 3000 python3-vt checks/check.py %s --tier quick --no-evidence" % (V, p)
                if only:
                    cmd += " --only '%s'" % only
                rr = sh(cmd)
                lines = [l for l in rr.stdout.splitlines() if l.startswith("VIOLATION") or l.startswith("  ->") or l.startswith("INCONCLUSIVE")]
                out[p] = {"rc": rr.returncode, "wall_s": round(time.time() - t0, 1), "lines": lines[:8]}
                print(i, p, "rc=%d" % rr.returncode, "%.0fs" % (time.time() - t0), (lines[:1] or [""])[0][:160], flush=True)
            results[i] = {"applied": True, "property": meta["property"], "detected": any(v["rc"] == 1 for v in out.values()), "runs": out}
        finally:
            sh("git -C /repo checkout -- .")
        json.dump(results, open(resf, "w"), indent=1)
    return 0


if __name__ == "__main__":
    sys.exit(main())
