#!/usr/bin/env python3
"""check.py <PROPERTY> [--tier quick|thorough]  |  check.py --replay <dir>

Decides the obligations of one property by symbolic execution of /repo's current
working tree (go/ssa dump regenerated on every run) with z3 deciding each assertion.
Exit 0: every obligation holds within the stated bounds (known findings are printed
as KNOWN-FINDING lines).  Exit 1: `VIOLATION property=<id> replay=<path>`.
Exit 2: INCONCLUSIVE (never reported as success, never as a violation)."""
import argparse
import glob
import json
import os
import re
import shutil
import sys
import time

VERIF = os.path.dirname(os.path.dirname(os.path.abspath(__file__)))
sys.path.insert(0, os.path.join(VERIF, "engine"))

from symgo import driver as D, exec as X  # noqa
from symgo.values import Unsupported  # noqa

MODULE = "go.brendoncarroll.net/p2p"


def pkgpath(pd):
    return MODULE if pd in ("", ".") else MODULE + "/" + pd


def parse_directives(path):
    """//verif: key=value ... lines directly above a VH_ function"""
    out = {}
    pend = {}
    for line in open(path):
        s = line.strip()
        if s.startswith("//verif:") or s.startswith("// verif:"):
            for m in re.finditer(r'(\w+)=("[^"]*"|\S+)', s[s.index("verif:") + 6:]):
                pend[m.group(1)] = m.group(2).strip('"')
        elif s.startswith("func VH_"):
            name = s[5:s.index("(")]
            out[name] = pend
            pend = {}
        elif s and not s.startswith("//"):
            pend = {}
    return out


def cross_check(smt, expected):
    """re-decide one SMT-LIB2 query with z3 4.8.12 and cvc5 1.0; any '(error' line or a different verdict counts"""
    import subprocess, tempfile
    out = {"queries": 1}
    text = smt if "(set-logic" in smt else "(set-logic QF_BV)\n" + smt
    with tempfile.NamedTemporaryFile("w", suffix=".smt2", delete=False) as f:
        f.write(text)
        fn = f.name
    try:
        for name, cmd in (("z3_4_8", ["/usr/bin/z3", "-T:60", fn]), ("cvc5", ["cvc5", "--tlimit=60000", fn])):
            try:
                r = subprocess.run(cmd, capture_output=True, text=True, timeout=90)
                o = r.stdout.strip().splitlines()
                verdict = o[0].strip() if o else "none"
                if "(error" in r.stdout or "(error" in r.stderr:
                    verdict = "error"
            except Exception:
                verdict = "timeout"
            if verdict == expected:
                out[name + "_agree"] = out.get(name + "_agree", 0) + 1
            elif verdict in ("sat", "unsat"):
                out["disagree"] = out.get("disagree", 0) + 1
            else:
                out[name + "_inconclusive"] = out.get(name + "_inconclusive", 0) + 1
    finally:
        os.unlink(fn)
    return out


def load_known():
    p = os.path.join(VERIF, "known_findings.json")
    if not os.path.exists(p):
        return {"findings": [], "fixed": []}
    return json.load(open(p))


def match_known(known, prop, harness, kind, label, func):
    for f in known.get("findings", []):
        if f["property"] != prop:
            continue
        if f.get("harness") and f["harness"] != harness:
            continue
        if f.get("kind") and f["kind"] != kind:
            continue
        if f.get("label") and f["label"] != label:
            continue
        if f.get("func") and f["func"] != func:
            continue
        return f
    return None


def main():
    import faulthandler, signal
    faulthandler.register(signal.SIGUSR1, all_threads=True)
    ap = argparse.ArgumentParser()
    ap.add_argument("prop", nargs="?")
    ap.add_argument("--tier", default=os.environ.get("VERIF_TIER", "quick"))
    ap.add_argument("--replay")
    ap.add_argument("--only", help="regex over harness names")
    ap.add_argument("--workers", type=int, default=int(os.environ.get("VERIF_WORKERS", "16")))
    ap.add_argument("--no-evidence", action="store_true")
    ap.add_argument("-v", "--verbose", action="store_true")
    args = ap.parse_args()
    if args.replay:
        return replay(args.replay)
    prop = args.prop
    tier = args.tier if args.tier in ("quick", "thorough") else "quick"
    seed = int(os.environ.get("VERIF_SEED", "0"))
    t_start = time.time()

    files = []
    for f in sorted(glob.glob(os.path.join(VERIF, "harness", "**", "zz_verif_*.go"), recursive=True)):
        if ("VH_%s_" % prop) in open(f).read():
            files.append(f)
    if not files:
        print("INCONCLUSIVE property=%s no harness" % prop)
        return 2
    directives = {}
    for f in files:
        directives.update(parse_directives(f))
    # companion files (shared stubs) in the same directories
    extra = []
    for f in files:
        for c in glob.glob(os.path.join(os.path.dirname(f), "zz_verifshared_*.go")):
            if c not in extra:
                extra.append(c)
    ws = D.Workspace(files + extra, tier)
    rc = 2
    try:
        rc = run(prop, tier, seed, ws, directives, args, t_start)
    finally:
        ws.cleanup()
    return rc


def run(prop, tier, seed, ws, directives, args, t_start):
    known = load_known()
    extra = ",".join(pkgpath(pd) + ".vCipherFor" for pd in ws.pkgdirs)
    dump = ws.dump(extra_args=["-roots", "VH_%s_" % prop, "-extra", extra])
    prog = X.Program(dump)
    base_opts = {"workers": args.workers, "witness": True, "witness_rate": 1.0, "tier": tier, "verbose": args.verbose}
    pkgs = [pkgpath(pd) for pd in ws.pkgdirs]
    init = D.run_init(prog, pkgs, base_opts)

    results = []
    problems = []
    violations = []      # (harness, description, tape, known?)
    samples = []
    total_paths = total_instrs = total_queries = validated = 0
    solver_time = 0.0
    funcs = set()
    icpts = set()
    bounds = {}
    roots = sorted(prog.roots)
    if args.only:
        roots = [r for r in roots if re.search(args.only, r)]
    pkg_of = {}
    for fid in roots:
        name = fid.rsplit(".", 1)[-1]
        for pd in ws.pkgdirs:
            if fid.startswith(pkgpath(pd) + ".VH_"):
                pkg_of[name] = pd
    pool = D.make_pool(prog, init, base_opts, seed)
    native_jobs = {}
    xstats = {}
    for fid in roots:
        name = fid.rsplit(".", 1)[-1]
        dv = directives.get(name, {})
        if dv.get("tier") == "thorough" and tier != "thorough":
            continue
        opts = dict(base_opts)
        opts["unwind"] = int(dv.get("unwind", 16))
        if tier == "thorough" and "unwind_thorough" in dv:
            opts["unwind"] = int(dv["unwind_thorough"])
        if "map_perm_max" in dv:
            opts["map_perm_max"] = int(dv["map_perm_max"])
        if dv.get("sched") == "coop":
            opts["no_preempt"] = True
        if "stubs" in dv:
            opts["stubs"] = tuple(dv["stubs"].split(","))
        if "preempt" in dv:
            pb = dv["preempt"].split("/")
            opts["preempt_bound"] = int(pb[-1] if tier == "thorough" else pb[0])
        if dv.get("time") == "concrete":
            opts["concrete_time"] = True
        opts["job_seconds"] = 15
        if tier == "thorough":
            opts["xcheck"] = 12          # final obligation queries re-decided by other solvers
            opts["xcheck_rate"] = 0.05
        max_paths = int(dv.get("max_paths", 400000 if tier == "quick" else 3000000))
        budget_s = float(dv.get("budget_s", 900 if tier == "quick" else 3600))
        if tier == "thorough" and "budget_thorough_s" in dv:
            budget_s = float(dv["budget_thorough_s"])
        D.OPTS = opts
        r = D.explore(prog, init, fid, opts, pool, max_paths=max_paths, deadline=time.time() + budget_s)
        results.append(r)
        total_paths += r.paths
        total_instrs += r.instrs
        total_queries += r.queries
        solver_time += r.solver_time
        funcs |= r.funcs
        icpts |= r.icpts
        bounds[name] = dv.get("bounds", "") + " unwind=%d" % opts["unwind"]
        line = "%-44s paths=%d %s queries=%d solver=%.1fs wall=%.1fs" % (name, r.paths, r.by_status, r.queries, r.solver_time, r.wall)
        print(line, flush=True)
        hv = []
        for v in r.violations:
            hv.append(("violation", v["label"], None, v["tape"], v.get("where")))
        for p in r.panics:
            hv.append(("panic", p["kind"], p["func"], p["tape"], p["where"] + " " + p["msg"]))
        expect_blocked = dv.get("blocked") == "ok"
        for b in r.blocked:
            if not expect_blocked:
                hv.append(("blocked", "blocked", None, b.get("tape"), b["info"]))
        if r.truncated:
            problems.append("%s: exploration truncated (max_paths/budget) after %d paths" % (name, r.paths))
        for p in r.problems[:5]:
            problems.append("%s: %s %s" % (name, p["status"], p["info"]))
        if len(r.problems) > 5:
            problems.append("%s: ... %d more problem paths" % (name, len(r.problems) - 5))
        # vacuity
        need = [c for c in dv.get("cover", "").split(",") if c]
        for c in need:
            if c not in r.cover:
                problems.append("%s: vacuity guard: cover label %r never reached" % (name, c))
        if r.by_status.get("ok", 0) == 0 and not hv:
            problems.append("%s: vacuity guard: no path reached the final assertion" % name)
        # native validation (batched per package after the loop)
        replay_mode = dv.get("replay", "exact")
        pd = pkg_of[name]
        if replay_mode in ("exact", "schedule"):
            jobs = [(name, w) for w in r.witnesses[:int(dv.get("witnesses", 24))]]
            if replay_mode == "schedule":
                jobs = []   # a witness of one interleaving does not determine the native schedule
            seen = set()
            vio_jobs = []
            for v in hv:
                if v[3] is not None and tuple(v[3]) not in seen and len(vio_jobs) < 12:
                    seen.add(tuple(v[3]))
                    vio_jobs.append((name, v[3]))
            native_jobs.setdefault(pd, []).append((name, jobs, vio_jobs, hv))
        # cross-solver check of sampled final obligation queries (thorough tier)
        for smt, res in getattr(r, "xq", []):
            xr = cross_check(smt, res)
            for k, v in xr.items():
                xstats[k] = xstats.get(k, 0) + v
            if xr.get("disagree"):
                problems.append("%s: solvers disagree on a final obligation query (z3 5.1 said %s)" % (name, res))
        # classify violations
        seen_sig = set()
        for v in hv:
            kind, label, func, tape, where = v
            sig = (kind, label, func)
            kf = match_known(known, prop, name, kind, label, func)
            if kf:
                if ("K",) + sig not in seen_sig:
                    print("KNOWN-FINDING: property=%s %s [%s]" % (prop, kf["what"], name))
                    seen_sig.add(("K",) + sig)
                continue
            if sig in seen_sig:
                continue
            seen_sig.add(sig)
            violations.append((name, pd, kind, label, func, tape, where))
        samples.append({"harness": name, "bounds": bounds[name], "paths": r.paths, "by_status": r.by_status,
                        "cover": sorted(r.cover), "queries": r.queries, "verdict": "holds" if not hv else "violated",
                        "witness_tape": (r.witnesses[0] if r.witnesses else None)})

    pool.shutdown(wait=True, cancel_futures=True)
    for pd, lst in native_jobs.items():
        flat = []
        for name, jobs, vio_jobs, hv in lst:
            flat += jobs + vio_jobs
        if not flat:
            continue
        out, err = ws.native(pd, flat)
        if out is None:
            problems.append("%s: native replay failed to run: %s" % (pd, err[-800:]))
            continue
        pos = 0
        for name, jobs, vio_jobs, hv in lst:
            for (h, t), o in zip(jobs, out[pos:pos + len(jobs)]):
                if o != "true":
                    problems.append("%s: translator validation: witness tape %s gives %r natively, expected true" % (name, t[:40], o))
                else:
                    validated += 1
            pos += len(jobs)
            nat = {}
            for (h, t), o in zip(vio_jobs, out[pos:pos + len(vio_jobs)]):
                nat[tuple(t)] = o
            pos += len(vio_jobs)
            for v in hv:
                if v[3] is None:
                    continue
                o = nat.get(tuple(v[3]))
                if o is None:
                    continue
                ok = (v[0] == "panic" and o.startswith("panic:")) or (v[0] == "violation" and (o == "false" or o.startswith("assert:"))) \
                    or (v[0] == "blocked" and o == "blocked")
                if not ok:
                    problems.append("%s: counterexample did not reproduce natively (%s %s -> %r): encoder or stub is wrong" % (name, v[0], v[1], o))
                else:
                    validated += 1
    wall = time.time() - t_start
    rc = 0
    outdir = os.path.join(VERIF, "replay", "out", prop)
    shutil.rmtree(outdir, ignore_errors=True)
    lines = []
    for n, (name, pd, kind, label, func, tape, where) in enumerate(violations):
        dest = os.path.join(outdir, "%s-%d" % (name, n))
        os.makedirs(dest, exist_ok=True)
        hsrc = [f for f in glob.glob(os.path.join(VERIF, "harness", pd, "zz_verif*.go"))]
        with open(os.path.join(dest, "case.json"), "w") as f:
            json.dump({"property": prop, "pkgdir": pd, "harness": name, "kind": kind, "label": label, "func": func,
                       "tape": tape, "where": where, "harness_files": hsrc}, f, indent=1)
        lines.append("VIOLATION property=%s replay=%s" % (prop, dest))
        print("  -> %s %s %s at %s tape=%s" % (kind, label, func or "", where, tape))
        rc = 1
    if problems:
        for p in problems[:40]:
            print("INCONCLUSIVE property=%s %s" % (prop, p))
        if rc == 0:
            rc = 2
    for l in lines:
        print(l)
    if not args.no_evidence:
        ev = {
            "property_id": prop, "tier": tier, "seed": seed, "level": "model_checking",
            "coverage": {
                "states": max(total_paths, 0), "transitions": total_instrs,
                "traces_validated_against_impl": validated,
                "samples": samples,
                "functions_encoded": sorted(f for f in funcs if "zz_verif" not in f and ".VH_" not in f)[:400],
                "n_functions_encoded": len(funcs),
                "intercepts_used": sorted(icpts),
                "bounds": bounds,
                "queries": total_queries, "solver_time_s": round(solver_time, 2),
                "unwinding_assertions_failed": sum(1 for p in problems if " unwind " in p),
                "inconclusive": problems[:40],
                "ssa_dump_s": round(ws.dump_time, 1),
                "cross_check": xstats if xstats else "not run in the quick tier",
                "explanation": "states = feasible symbolic paths explored (each decided by z3 for all inputs on that path); "
                               "transitions = SSA instructions executed symbolically; traces_validated = witness/counterexample tapes replayed against the native build",
            },
            "assumptions": ["go/ssa (x/tools v0.29.0) as source semantics", "executor instruction semantics (validated by native replay of witness tapes)",
                            "intercept models listed in coverage.intercepts_used", "z3 5.1.0"],
            "wall_s": round(wall, 2),
            "violations": len(violations),
        }
        os.makedirs(os.path.join(VERIF, "evidence"), exist_ok=True)
        with open(os.path.join(VERIF, "evidence", prop + ".json"), "w") as f:
            json.dump(ev, f, indent=1)
    print("%s tier=%s rc=%d paths=%d queries=%d wall=%.1fs" % (prop, tier, rc, total_paths, total_queries, wall))
    return rc


def replay(path):
    case = json.load(open(os.path.join(path, "case.json")))
    pd = case["pkgdir"]
    files = glob.glob(os.path.join(VERIF, "harness", pd, "zz_verif*.go"))
    dv = {}
    for f in files:
        dv.update(parse_directives(f))
    mode = dv.get(case["harness"], {}).get("replay", "exact")
    if mode != "exact" or case.get("tape") is None:
        # harnesses resting on engine-level models (or on a schedule) have no tape-exact native run:
        # the replay is the symbolic re-decision of that one harness
        import subprocess
        print("replay mode %s: re-deciding %s symbolically" % (mode, case["harness"]))
        r = subprocess.run([sys.executable, os.path.abspath(__file__), case["property"], "--only", "^.*%s$" % case["harness"], "--no-evidence"], cwd=VERIF)
        return r.returncode
    ws = D.Workspace(files)
    try:
        out, err = ws.native(pd, [(case["harness"], case["tape"])])
        print("native result:", out, err)
        if out and (out[0] in ("false", "blocked") or out[0].startswith("panic:") or out[0].startswith("assert:")):
            print("REPRODUCED %s" % case["harness"])
            return 1
        return 0
    finally:
        ws.cleanup()


if __name__ == "__main__":
    sys.exit(main())
