#!/usr/bin/env python3
"""prints the markdown table for DESIGN.md section 9 from seeded/*/meta.json and seeded/RESULTS.json"""
import json, os
V = os.path.dirname(os.path.dirname(os.path.abspath(__file__)))
S = os.path.join(V, "seeded")
res = json.load(open(os.path.join(S, "RESULTS.json"))) if os.path.exists(os.path.join(S, "RESULTS.json")) else {}
rows = []
for d in sorted(os.listdir(S)):
    mp = os.path.join(S, d, "meta.json")
    if not os.path.exists(mp):
        continue
    m = json.load(open(mp))
    r = res.get(d)
    if not r:
        verdict, by = "not run yet", ""
    elif not r.get("applied"):
        verdict, by = "patch no longer applies", ""
    else:
        hits = []
        for p, run in r["runs"].items():
            if run["rc"] == 1:
                lab = ""
                for l in run["lines"]:
                    if l.startswith("  ->"):
                        lab = l[5:].split(" at ")[0].strip()
                        break
                hits.append("%s (%s)" % (p, lab))
        verdict = "**caught**" if hits else "missed"
        by = "; ".join(hits) if hits else ", ".join("%s rc=%d" % (p, run["rc"]) for p, run in r["runs"].items())
    needs = (m.get("needs") or m.get("what") or "").replace("|", "/")
    rows.append("| %s | %s | %s | %s | %s |" % (d, m["property"], needs[:230], verdict, by[:200]))
print("| Seed | Property | What it needs to manifest | Verdict | Caught by (first counterexample label) |")
print("|---|---|---|---|---|")
print("\n".join(rows))
n = sum(1 for r in rows if "**caught**" in r)
print("\n%d of %d seeded changes caught." % (n, len(rows)))
