#!/bin/sh
# run every registered check (quick or thorough tier) and summarise; works from any checkout of /verif
# (VERIF_REPO selects the repository tree, default /repo)
TIER=${1:-quick}
HERE=$(cd "$(dirname "$0")/.." && pwd)
cd "$HERE"
[ -x engine/bin/ssa2json ] || (cd engine/frontend && GOFLAGS=-mod=mod GOPROXY=off GOSUMDB=off GOTOOLCHAIN=local go build -o ../bin/ssa2json .)
LOGD=${VERIF_LOGDIR:-/tmp}
shift
PROPS=${*:-C01 C02 C03 C04 C05 C06 C07 C08 C09 C10 C11 C12 C13 C15 C16 C17 C18 C19 C20}
for p in $PROPS; do
  s=$(date +%s)
  python3-vt checks/check.py $p --tier $TIER > $LOGD/verif_run_${TIER}_$p.log 2>&1
  rc=$?
  e=$(date +%s)
  echo "$p rc=$rc $((e-s))s $(tail -1 $LOGD/verif_run_${TIER}_$p.log)"
done
