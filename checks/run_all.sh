#!/bin/sh
# run every registered check (quick or thorough tier) and summarise
TIER=${1:-quick}
cd /verif
for p in C01 C02 C03 C04 C05 C06 C07 C08 C09 C10 C11 C12 C13 C15 C16 C17 C18 C19 C20; do
  s=$(date +%s)
  python3-vt checks/check.py $p --tier $TIER > /tmp/verif_run_$p.log 2>&1
  rc=$?
  e=$(date +%s)
  echo "$p rc=$rc $((e-s))s $(tail -1 /tmp/verif_run_$p.log)"
done
