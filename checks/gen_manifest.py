#!/usr/bin/env python3
"""regenerates /verif/MANIFEST.json from the table below"""
import json, os
V = os.path.dirname(os.path.dirname(os.path.abspath(__file__)))
TECH = "symbolic execution of go/ssa (regenerated from /repo per run) + SMT (z3 bit-vectors), bounded"
NOTE = ("trusted: go/ssa (x/tools v0.29.0) as source semantics; executor instruction semantics (validated per run by replaying solver witness tapes and "
        "counterexamples against the native build); engine intercept models listed in evidence; z3 5.1.0. Bounds per obligation are in evidence coverage.bounds; ")
CLAIMS = {
 "C08": ("no panic path for every byte string / packet sequence within the stated lengths at the packet-facing entry points: p2pmux demuxers, fragswarm parseMessage+handleTell, mbapp ParseMessage/getters+handleMessage", "outside: x509/asn1 key parser, regexp/fmt address parsers, QUIC/SSH wire parsers"),
 "C11": ("AskHub: each asker gets exactly its own handler's result and bytes under every interleaving within the preemption bound; gone hub/cancelled context is an error", "outside: quicswarm/sshswarm streams; mbapp/vswarm ask paths pending"),
 "C12": ("TellHub/AskHub/Queue: every blocked and later Receive/ServeAsk returns a non-nil error after Close, no callback after Close returned, repeated Close harmless, for every interleaving at synchronisation operations", "outside: goroutine release of socket-backed receive loops (udp/quic/ssh)"),
 "C13": ("TellHub/AskHub: exactly-once hand-off, Deliver success only after the callback, cancelled calls return; Queue FIFO, buffer ownership and slot conservation", "interleavings at channel operations, context-bounded where stated; assumes data-race freedom (C14 not claimed)"),
 "C15": ("mux/demux round trip and injectivity for all five framings over symbolic channels and payloads within stated sizes", "dispatch through sync.Map/handleRecv pending"),
 "C17": ("PeerID text: round trip, order preservation, wrong length rejected, strict alphabet acceptance with reference decode", "outside: x509 MarshalPublicKey/ParsePublicKey (encoding/asn1 reflection) and fingerprint canonicity"),
 "C18": ("bounded operation sequences from the empty cache against a reference map: count==entries<=max, entries vanish only by delete/expiry/reported eviction, farthest unprotected bucket evicted, Expire exact", "small key universe (1-byte keys), 3-4 operations; map iteration order fixed to insertion order"),
 "C19": ("DistanceCmp agrees with byte-wise XOR comparison and is a total preorder (all length triples <=3); ForEach nearest-first and complete, Closest minimal, ForEachCloser/ForEachMatching exact over symbolic small caches", "1-byte keys, <=2-3 entries"),
 "C20": ("dhtIterate-based operations over an adversarial responder pool: each node contacted at most once, accepted count/error/Closest/value truthful, HandleFindNode capped", "pool of 3-4 symbolic ids; fabricated ever-closer ids outside the claim"),
}
NA = {
 "C14": "Go memory-model data races are not expressible in an SSA-level symbolic encoding; the scheduler model interleaves only at synchronisation operations (it assumes race freedom)",
}
PENDING = {}
ALL = ["C%02d" % i for i in range(1, 21)]
checks = []
for p in ALL:
    if p in CLAIMS:
        text, note = CLAIMS[p]
        checks.append({
            "property_id": p,
            "quick_cmd": "python3-vt checks/check.py %s --tier quick" % p,
            "thorough_cmd": "python3-vt checks/check.py %s --tier thorough" % p,
            "evidence_file": "evidence/%s.json" % p,
            "replay_cmd_template": "python3-vt checks/check.py --replay {path}",
            "engine": "symgo",
            "level_claimed": {"category": "model_checking", "text": text, "design_ref": "DESIGN.md section 4 (%s)" % p},
            "level_note": NOTE + note,
            "technique": TECH,
        })
na = [{"property_id": p, "reason": r} for p, r in NA.items()]
for p in ALL:
    if p not in CLAIMS and p not in NA:
        na.append({"property_id": p, "reason": PENDING.get(p, "no check registered yet: harnesses for this property are still being built on the same engine (see DESIGN.md section 4)")})
m = {
 "version": 1,
 "setup_cmd": "cd /verif/engine/frontend && GOFLAGS=-mod=mod GOPROXY=off GOSUMDB=off GOTOOLCHAIN=local go build -o /verif/engine/bin/ssa2json .",
 "hooks": {"guard": "verif", "enable": "no source hooks: harnesses are injected as overlay files (go/packages Overlay for encoding, go test -overlay for replay)",
           "baseline_off_cmd": "cd /repo && go test -vet=off -count=1 -timeout 25m ./...", "source_commits": [], "add_only": True},
 "engines": [{"name": "symgo", "path": "engine/", "serves_properties": sorted(CLAIMS), "kind_free_text": "go/ssa -> JSON frontend (Go, x/tools v0.29.0) + path-forking symbolic executor over z3 bit-vectors (Python), goroutine/channel scheduler model, native tape replay"}],
 "checks": checks,
 "not_applicable": na,
 "notes": "exit 2 + INCONCLUSIVE lines = the encoding could not decide (never reported as success or as a violation). known_findings.json lists repaired defects (fixed:) and recorded findings.",
}
json.dump(m, open(os.path.join(V, "MANIFEST.json"), "w"), indent=1)
print("wrote MANIFEST.json with", len(checks), "checks")
