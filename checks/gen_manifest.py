#!/usr/bin/env python3
"""regenerates /verif/MANIFEST.json from the table below"""
import json, os
V = os.path.dirname(os.path.dirname(os.path.abspath(__file__)))
TECH = "symbolic execution of go/ssa (regenerated from /repo per run) + SMT (z3 bit-vectors), bounded"
NOTE = ("trusted: go/ssa (x/tools v0.29.0) as source semantics; executor instruction semantics (validated per run by replaying solver witness tapes and "
        "counterexamples against the native build); engine intercept models listed in evidence; z3 5.1.0. Bounds per obligation are in evidence coverage.bounds; ")
CLAIMS = {
 "C01": ("per-layer delivery exactness: fragswarm and mbapp round trips and two-source interleavings (real Tell -> recorded fragments -> real receive path, every order, reused receive buffer), vswarm tell/receive with buffer overwrite, p2pmux tell pass-through, multiswarm routing and receive wrapping, mapswarm pass-through, Queue contents (C13 harness): payload, source, destination preserved, sender buffers untouched", "payloads <= 4-6 bytes for content; nesting argued per layer over an arbitrary inner stub; UDP/QUIC/SSH and p2pkeswarm payload path outside (C02/C04 cover the channel and glue)"),
 "C02": ("Session.Deliver/Send relative to the AEAD contract of a recording cipher stub: app data only after exactly one successful authenticated decrypt of exactly the packet, at most once under the real replay filter, send framing/counter discipline, data counters disjoint from handshake counters and never decreasing (inductive steps), Channel.Send puts only header+ciphertext on the transport, channel-level delivery only from established sessions", "replay window: counters within 256 of base plus jumps >= 128 blocks; strength of ChaCha20-Poly1305/Noise and concurrent Send counter allocation outside"),
 "C03": ("inductive step of Session.Deliver over every (role, handshake index) with arbitrary packet: only legal transitions, each gated by a successful Verify under the key then reported as remote key over the purpose-tagged transcript of this handshake; remote key immutable; no state change on error", "Noise, protobuf and asn1 leaves are engine models (havoc constrained by contract); Ed25519 unforgeability and transcript-hash uniqueness assumed"),
 "C04": ("wlswarm: nothing sent to / delivered from a rejected address for every predicate; p2pkeswarm glue relative to the Channel contract: source identity = fingerprint of the channel's proved key, inbound accept predicate = whitelist, outbound payload only to a channel whose key fingerprints to the addressed identity, whatever is delivered has a whitelisted source on every path (also on channels the swarm dialled itself)", "QUIC/TLS and SSH handshakes and their identity checks cannot be encoded (library glue): outside"),
 "C05": ("inductive step of Channel.Deliver from every slot state satisfying the documented invariant, arbitrary packet and acceptance predicate: invariant preserved, channel key immutable and accepted, app data only from established sessions, handshakes with other keys do not disturb established sessions", "Session leaves modelled as in C03; counters 0..79"),
 "C06": ("Session handshake lemmas: monotone, no panic, Handshake() idempotent, genuine next message advances exactly one step when all checks pass, duplicates/old/reflected messages change nothing and are answered with the cached message", "schedule quantifier discharged by induction over these one-step facts (paper argument); two-party bounded schedules not mechanised"),
 "C07": ("safety lemmas the liveness statement presupposes, with a symbolic clock: keep-alive refreshed by authenticated data, simultaneous-initiation tie-break picks exactly one side, expiry preserves the slot invariant and re-arms the ready signal; retransmission machinery with modelled timers (a timer re-armed from its own callback stays pending, a Send without any session schedules a handshake at once, every pending handshake message is retransmitted and the timer re-armed with the backoff)", "PARTIAL: the timed convergence within a bounded number of retransmission intervals needs real timers/goroutines/two parties and is outside what the encoding reaches"),
 "C08": ("no panic path for every byte string / packet sequence within the stated lengths at the packet-facing entry points: p2pmux demuxers, fragswarm parseMessage+handleTell, mbapp ParseMessage/getters+handleMessage, p2pke parsers/Session/Channel, quicswarm readFrame under every short-read pattern, kademlia HandlePut/HandleGet/HandleFindNode", "outside: x509/asn1 key parser, regexp/fmt address parsers, QUIC/SSH wire parsers"),
 "C09": ("size arithmetic at full scale with opaque payloads (symbolic length): fragswarm and mbapp Tell accept everything <= MTU(), refuse above with the MTU error, fragments fit the inner MTU and the announced count is the true count; p2pmux MTU+header fits beneath for every channel id; p2pkeswarm MTU+overhead fits beneath; mbapp Ask sizes; vswarm boundary", "inner MTU >= header size + 1; udp/quic/ssh writers outside"),
 "C10": ("fragments produced by the real Tell/send of several symbolic messages from two sources fed to the real reassembly in every schedule of 5-6 picks with repetition and omission: every delivery is a complete message of the attributed source", "<= 3 fragments per message, id reuse after sender restart outside"),
 "C11": ("AskHub: each asker gets exactly its own handler's result and bytes under every interleaving within the preemption bound; gone hub/cancelled context is an error; vswarm Ask and mbapp Ask (two real swarms over a loop-back inner swarm, multi-part requests/responses): exact answer, or an error for unknown/closed destination, negative handler result and a response that does not fit", "outside: quicswarm/sshswarm streams, several outstanding mbapp asks with crossed replies"),
 "C12": ("TellHub/AskHub/Queue and the composite Close of mbapp and p2pmux muxed swarms: every blocked and later Receive/ServeAsk returns a non-nil error after Close, no callback after Close returned, repeated Close harmless, for every interleaving at synchronisation operations", "outside: goroutine release of socket-backed receive loops (udp/quic/ssh)"),
 "C13": ("TellHub/AskHub: exactly-once hand-off, Deliver success only after the callback, cancelled calls return; Queue FIFO, buffer ownership and slot conservation", "interleavings at channel operations, context-bounded where stated; assumes data-race freedom (C14 not claimed)"),
 "C15": ("mux/demux round trip and injectivity for all five framings over symbolic channels and payloads; two frames alive at once stay independent and the caller's vector is untouched; dispatch isolation through the real handleRecv with two open channels for the string and varint muxes (sync.Map modelled)", "channel names <= 4 bytes plus the 2-byte varint boundary"),
 "C16": ("PARTIAL: the compositional id@inner wrappers (p2pkeswarm.Addr, quicswarm.Addr): round trip for every id and inner text (including '@'), parse of arbitrary text fails or is a fixed point", "udpswarm/sshswarm/multiswarm/memswarm grammars use fmt.Sscan/regexp/netip/strconv and cannot be encoded faithfully: outside"),
 "C17": ("PeerID text: round trip, order preservation, wrong length rejected, strict alphabet acceptance with reference decode; OID construction round trip; EqualPublicKeys == equality of algorithm and bytes; fingerprint identical across p2pkeswarm and quicswarm (hashes as functional symbols; KNOWN FINDING F22: they differ)", "outside: x509 MarshalPublicKey/ParsePublicKey (encoding/asn1 reflection) and fingerprint canonicity across layers"),
 "C18": ("bounded operation sequences from the empty cache against a reference map: count==entries<=max, entries vanish only by delete/expiry/reported eviction, farthest unprotected bucket evicted, Expire exact", "small key universe (1-byte keys), 3-4 operations; map iteration order fixed to insertion order"),
 "C19": ("DistanceCmp agrees with byte-wise XOR comparison and is a total preorder (all length triples <=3); ForEach nearest-first and complete, Closest minimal, ForEachCloser/ForEachMatching exact over symbolic small caches", "1-byte keys, <=2-3 entries"),
 "C20": ("dhtIterate-based operations over an adversarial responder pool: each node contacted at most once, accepted count/error/Closest/value truthful, HandleFindNode capped", "pool of 3-4 symbolic ids; fabricated ever-closer ids outside the claim"),
}
NA = {
 "C14": "Go memory-model data races are not expressible in an SSA-level symbolic encoding; the scheduler model interleaves only at synchronisation operations (it assumes race freedom)",
}
PENDING = {}
ALL = ["C%02d" % i for i in range(1, 21)]
checks = []
for p in ALL:
    if p in CLAIMS:
        text, note = CLAIMS[p]
        checks.append({
            "property_id": p,
            "quick_cmd": "python3-vt checks/check.py %s --tier quick" % p,
            "thorough_cmd": "python3-vt checks/check.py %s --tier thorough" % p,
            "evidence_file": "evidence/%s.json" % p,
            "replay_cmd_template": "python3-vt checks/check.py --replay {path}",
            "engine": "symgo",
            "level_claimed": {"category": "model_checking", "text": text, "design_ref": "DESIGN.md section 4 (%s)" % p},
            "level_note": NOTE + note,
            "technique": TECH,
        })
na = [{"property_id": p, "reason": r} for p, r in NA.items()]
for p in ALL:
    if p not in CLAIMS and p not in NA:
        na.append({"property_id": p, "reason": PENDING.get(p, "no check registered yet: harnesses for this property are still being built on the same engine (see DESIGN.md section 4)")})
m = {
 "version": 1,
 "setup_cmd": "cd /verif/engine/frontend && GOFLAGS=-mod=mod GOPROXY=off GOSUMDB=off GOTOOLCHAIN=local go build -o /verif/engine/bin/ssa2json .",
 "hooks": {"guard": "verif", "enable": "no source hooks: harnesses are injected as overlay files (go/packages Overlay for encoding, go test -overlay for replay)",
           "baseline_off_cmd": "cd /repo && GOFLAGS=-mod=mod GOPROXY=off GOSUMDB=off go test -vet=off -count=1 -timeout 25m ./...", "source_commits": [], "add_only": True},
 "engines": [{"name": "symgo", "path": "engine/", "serves_properties": sorted(CLAIMS), "kind_free_text": "go/ssa -> JSON frontend (Go, x/tools v0.29.0) + path-forking symbolic executor over z3 bit-vectors (Python), goroutine/channel scheduler model, native tape replay"}],
 "checks": checks,
 "not_applicable": na,
 "notes": "exit 2 + INCONCLUSIVE lines = the encoding could not decide (never reported as success or as a violation). known_findings.json lists repaired defects (fixed:) and recorded findings.",
}
json.dump(m, open(os.path.join(V, "MANIFEST.json"), "w"), indent=1)
print("wrote MANIFEST.json with", len(checks), "checks")
