package p2pkeswarm

import (
	"context"

	"go.brendoncarroll.net/p2p"
	"go.brendoncarroll.net/p2p/f/x509"
	"go.brendoncarroll.net/p2p/f/x509/oids"
	"go.brendoncarroll.net/p2p/p/p2pke"
	"go.brendoncarroll.net/p2p/s/swarmutil"
)

// C04 (P2PKE swarm glue), relative to the Channel contract established by C02/C03/C05:
// p2pke.Channel's methods are engine-level havoc (Deliver returns nothing / an error / any
// application bytes; RemoteKey returns the channel's fixed key; WaitReady may fail).

var vAlgo = oids.New(1, 2, 3)

type vAddr uint8

func (a vAddr) MarshalText() ([]byte, error) { return []byte{'a' + byte(a)}, nil }
func (a vAddr) String() string               { return string([]byte{'a' + byte(a)}) }

type vInner struct{ told *int }

func (s vInner) Tell(ctx context.Context, dst vAddr, v p2p.IOVec) error { *s.told++; return nil }
func (s vInner) Receive(ctx context.Context, fn func(p2p.Message[vAddr])) error {
	return nil
}
func (s vInner) LocalAddrs() []vAddr                  { return []vAddr{0} }
func (s vInner) MTU() int                             { return 1000 }
func (s vInner) Close() error                         { return nil }
func (s vInner) ParseAddr(data []byte) (vAddr, error) { return 0, nil }

// the harness fingerprint: identity = first key byte
func vFP(pub *x509.PublicKey) (ret p2p.PeerID) {
	if len(pub.Data) > 0 {
		ret[0] = pub.Data[0]
	}
	ret[1] = 0x77
	return ret
}

// engine intrinsics (see engine/symgo/models.py): natively unused
func vChanSends(c *p2pke.Channel) int           { return 0 }
func vChanAccept(c *p2pke.Channel, k byte) bool { return false }

type vGot struct {
	src, dst Addr[vAddr]
	payload  []byte
}

func vNewSwarm(told *int, wlM, wlV byte) *Swarm[vAddr] {
	cfg := newDefaultConfig[vAddr]()
	cfg.fingerprinter = vFP
	cfg.whitelist = func(a Addr[vAddr]) bool { return vWL(a, wlM, wlV) }
	s := &Swarm[vAddr]{
		inner:     vInner{told: told},
		config:    cfg,
		publicKey: x509.PublicKey{Algorithm: vAlgo, Data: []byte{0x42}},
		hub:       swarmutil.NewTellHub[Addr[vAddr]](),
		store:     newStore[string, *channelState](),
		ctx:       context.Background(),
	}
	s.localID = vFP(&s.publicKey)
	return s
}

// vWL is the harness whitelist family: it depends on the identity AND on the transport address.
func vWL(a Addr[vAddr], m, v byte) bool { return (a.ID[0]^(byte(a.Addr)*0x55))&m == v }
