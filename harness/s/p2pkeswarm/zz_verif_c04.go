package p2pkeswarm

import (
	"context"

	"go.brendoncarroll.net/p2p"
)

// C04 (P2PKE swarm glue), relative to the Channel contract established by C02/C03/C05.

// verif: replay=none stubs=channel sched=coop time=concrete cover=delivered,nothing bounds="p2pkeswarm.handleMessage: any inbound packet outcome of the channel (nothing / error / application bytes), whitelist ((id ^ addr*0x55)&m)==v symbolic (depends on identity and transport address): a delivery carries Src.ID = fingerprint(channel.RemoteKey()), Src.Addr = transport source, Dst = local id; the inbound channel's AcceptKey is exactly the whitelist applied to fingerprint(key)@source"
func VH_C04_p2pkeswarmInbound() bool {
	told := 0
	wlM, wlV := vByte(), vByte()
	s := vNewSwarm(&told, wlM, wlV)
	var got []vGot
	go func() {
		for i := 0; i < 2; i++ {
			s.hub.Receive(context.Background(), func(m p2p.Message[Addr[vAddr]]) {
				got = append(got, vGot{src: m.Src, dst: m.Dst, payload: append([]byte{}, m.Payload...)})
			})
		}
	}()
	src := vAddr(vByte() & 1)
	s.handleMessage(context.Background(), p2p.Message[vAddr]{Src: src, Dst: 0, Payload: vBytes(2)})
	cs, ok := s.store.get(s.keyForAddr(src))
	vAssert(ok, "no-channel-for-source")
	// the acceptance predicate configured for the inbound channel is the whitelist
	k := vByte()
	var probe Addr[vAddr]
	probe.ID[0], probe.ID[1], probe.Addr = k, 0x77, src
	vAssert(vChanAccept(cs.Channel, k) == vWL(probe, wlM, wlV), "inbound-accept-predicate-is-not-the-whitelist")
	if len(got) == 0 {
		vCover("nothing")
		return true
	}
	vCover("delivered")
	rk := cs.Channel.RemoteKey()
	vAssert(len(got) == 1, "more-than-one-delivery")
	vAssert(got[0].src.ID == vFP(&rk), "source-identity-is-not-the-fingerprint-of-the-proved-key")
	vAssert(got[0].src.Addr == src && got[0].dst.Addr == 0 && got[0].dst.ID == s.localID, "addresses-wrong")
	return true
}

// verif: replay=none stubs=channel time=concrete unwind=8 cover=sent,refused bounds="p2pkeswarm.Tell to identity X at a transport address: the payload is handed to a channel only if fingerprint(channel.RemoteKey()) == X; the outbound channel's AcceptKey accepts exactly keys whose fingerprint is X; over-MTU refused; at most 3 re-dials before the context expires"
func VH_C04_p2pkeswarmOutbound() bool {
	told := 0
	s := vNewSwarm(&told, 0, 0)
	var dst Addr[vAddr]
	dst.ID[0] = vByte()
	dst.ID[1] = 0x77
	dst.Addr = 1
	err := s.Tell(context.Background(), dst, p2p.IOVec{vBytes(2)})
	cs, ok := s.store.get(s.keyForAddr(dst.Addr))
	if err != nil {
		vCover("refused")
		if ok {
			vAssert(vChanSends(cs.Channel) == 0, "payload-sent-although-tell-failed")
		}
		return true
	}
	vCover("sent")
	vAssert(ok, "no-channel")
	rk := cs.Channel.RemoteKey()
	vAssert(vFP(&rk) == dst.ID, "payload-handed-to-a-channel-with-a-different-identity")
	vAssert(vChanSends(cs.Channel) == 1, "not-exactly-one-send")
	k := vByte()
	var want p2p.PeerID
	want[0], want[1] = k, 0x77
	vAssert(vChanAccept(cs.Channel, k) == (want == dst.ID), "outbound-accept-predicate-is-not-identity-equality")
	return true
}

// verif: replay=none stubs=channel sched=coop time=concrete unwind=8 cover=delivered-after-dial,delivered-inbound bounds="p2pkeswarm with whitelist ((id ^ addr*0x55)&m)==v: optionally a Tell to an arbitrary identity at transport address 1 first (the swarm dials a channel), then a packet from transport address 1: whatever is delivered has a whitelisted source. Channel contract: a channel's remote key satisfies the AcceptKey it was created with"
func VH_C04_p2pkeswarmWhitelistEveryPath() bool {
	told := 0
	wlM, wlV := vByte(), vByte()
	s := vNewSwarm(&told, wlM, wlV)
	var got []vGot
	go func() {
		for i := 0; i < 2; i++ {
			s.hub.Receive(context.Background(), func(m p2p.Message[Addr[vAddr]]) {
				got = append(got, vGot{src: m.Src, dst: m.Dst, payload: append([]byte{}, m.Payload...)})
			})
		}
	}()
	dialled := vBool()
	if dialled {
		var dst Addr[vAddr]
		dst.ID[0], dst.ID[1], dst.Addr = vByte(), 0x77, 1
		s.Tell(context.Background(), dst, p2p.IOVec{[]byte{1}})
	}
	s.handleMessage(context.Background(), p2p.Message[vAddr]{Src: 1, Dst: 0, Payload: vBytes(2)})
	for _, g := range got {
		if dialled {
			vCover("delivered-after-dial")
		} else {
			vCover("delivered-inbound")
		}
		vAssert(vWL(g.src, wlM, wlV), "message-from-a-peer-the-whitelist-rejects-was-delivered")
	}
	return true
}
