package p2pkeswarm

import (
	"context"

	"go.brendoncarroll.net/p2p"
	"go.brendoncarroll.net/p2p/f/x509"
	"go.brendoncarroll.net/p2p/f/x509/oids"
	"go.brendoncarroll.net/p2p/p/p2pke"
	"go.brendoncarroll.net/p2p/s/swarmutil"
)

// C04 (P2PKE swarm glue), relative to the Channel contract established by C02/C03/C05:
// p2pke.Channel's methods are engine-level havoc (Deliver returns nothing / an error / any
// application bytes; RemoteKey returns the channel's fixed key; WaitReady may fail).

var vAlgo = oids.New(1, 2, 3)

type vAddr uint8

func (a vAddr) MarshalText() ([]byte, error) { return []byte{'a' + byte(a)}, nil }
func (a vAddr) String() string               { return string([]byte{'a' + byte(a)}) }

type vInner struct{ told *int }

func (s vInner) Tell(ctx context.Context, dst vAddr, v p2p.IOVec) error { *s.told++; return nil }
func (s vInner) Receive(ctx context.Context, fn func(p2p.Message[vAddr])) error {
	return nil
}
func (s vInner) LocalAddrs() []vAddr                  { return []vAddr{0} }
func (s vInner) MTU() int                             { return 1000 }
func (s vInner) Close() error                         { return nil }
func (s vInner) ParseAddr(data []byte) (vAddr, error) { return 0, nil }

// the harness fingerprint: identity = first key byte
func vFP(pub *x509.PublicKey) (ret p2p.PeerID) {
	if len(pub.Data) > 0 {
		ret[0] = pub.Data[0]
	}
	ret[1] = 0x77
	return ret
}

// engine intrinsics (see engine/symgo/models.py): natively unused
func vChanSends(c *p2pke.Channel) int           { return 0 }
func vChanAccept(c *p2pke.Channel, k byte) bool { return false }

type vGot struct {
	src, dst Addr[vAddr]
	payload  []byte
}

func vNewSwarm(told *int, wlM, wlV byte) *Swarm[vAddr] {
	cfg := newDefaultConfig[vAddr]()
	cfg.fingerprinter = vFP
	cfg.whitelist = func(a Addr[vAddr]) bool { return a.ID[0]&wlM == wlV }
	s := &Swarm[vAddr]{
		inner:     vInner{told: told},
		config:    cfg,
		publicKey: x509.PublicKey{Algorithm: vAlgo, Data: []byte{0x42}},
		hub:       swarmutil.NewTellHub[Addr[vAddr]](),
		store:     newStore[string, *channelState](),
		ctx:       context.Background(),
	}
	s.localID = vFP(&s.publicKey)
	return s
}

// verif: replay=none stubs=channel sched=coop time=concrete cover=delivered,nothing bounds="p2pkeswarm.handleMessage: any inbound packet outcome of the channel (nothing / error / application bytes), whitelist (id&m)==v symbolic: a delivery carries Src.ID = fingerprint(channel.RemoteKey()), Src.Addr = transport source, Dst = local id; the inbound channel's AcceptKey is exactly the whitelist applied to fingerprint(key)@source"
func VH_C04_p2pkeswarmInbound() bool {
	told := 0
	wlM, wlV := vByte(), vByte()
	s := vNewSwarm(&told, wlM, wlV)
	var got []vGot
	go func() {
		for i := 0; i < 2; i++ {
			s.hub.Receive(context.Background(), func(m p2p.Message[Addr[vAddr]]) {
				got = append(got, vGot{src: m.Src, dst: m.Dst, payload: append([]byte{}, m.Payload...)})
			})
		}
	}()
	src := vAddr(vByte() & 1)
	s.handleMessage(context.Background(), p2p.Message[vAddr]{Src: src, Dst: 0, Payload: vBytes(2)})
	cs, ok := s.store.get(s.keyForAddr(src))
	vAssert(ok, "no-channel-for-source")
	// the acceptance predicate configured for the inbound channel is the whitelist
	k := vByte()
	vAssert(vChanAccept(cs.Channel, k) == (k&wlM == wlV), "inbound-accept-predicate-is-not-the-whitelist")
	if len(got) == 0 {
		vCover("nothing")
		return true
	}
	vCover("delivered")
	rk := cs.Channel.RemoteKey()
	vAssert(len(got) == 1, "more-than-one-delivery")
	vAssert(got[0].src.ID == vFP(&rk), "source-identity-is-not-the-fingerprint-of-the-proved-key")
	vAssert(got[0].src.Addr == src && got[0].dst.Addr == 0 && got[0].dst.ID == s.localID, "addresses-wrong")
	return true
}

// verif: replay=none stubs=channel time=concrete unwind=8 cover=sent,refused bounds="p2pkeswarm.Tell to identity X at a transport address: the payload is handed to a channel only if fingerprint(channel.RemoteKey()) == X; the outbound channel's AcceptKey accepts exactly keys whose fingerprint is X; over-MTU refused; at most 3 re-dials before the context expires"
func VH_C04_p2pkeswarmOutbound() bool {
	told := 0
	s := vNewSwarm(&told, 0, 0)
	var dst Addr[vAddr]
	dst.ID[0] = vByte()
	dst.ID[1] = 0x77
	dst.Addr = 1
	err := s.Tell(context.Background(), dst, p2p.IOVec{vBytes(2)})
	cs, ok := s.store.get(s.keyForAddr(dst.Addr))
	if err != nil {
		vCover("refused")
		if ok {
			vAssert(vChanSends(cs.Channel) == 0, "payload-sent-although-tell-failed")
		}
		return true
	}
	vCover("sent")
	vAssert(ok, "no-channel")
	rk := cs.Channel.RemoteKey()
	vAssert(vFP(&rk) == dst.ID, "payload-handed-to-a-channel-with-a-different-identity")
	vAssert(vChanSends(cs.Channel) == 1, "not-exactly-one-send")
	k := vByte()
	var want p2p.PeerID
	want[0], want[1] = k, 0x77
	vAssert(vChanAccept(cs.Channel, k) == (want == dst.ID), "outbound-accept-predicate-is-not-identity-equality")
	return true
}
