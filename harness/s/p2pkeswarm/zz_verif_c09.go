package p2pkeswarm

import (
	"github.com/flynn/noise"
	"go.brendoncarroll.net/p2p/p/p2pke"
)

// C09 (P2PKE swarm): a payload of MTU() bytes, once sealed (4-byte counter + 16-byte tag, see
// VH_C02_sendFraming), fits the swarm beneath and a Noise message.

type vInnerM struct {
	vInner
	m int
}

func (s vInnerM) MTU() int { return s.m }

// verif: cover=checked bounds="every inner MTU 0..2^20 (symbolic): MTU()+Overhead <= inner MTU and <= noise.MaxMsgLen"
func VH_C09_p2pkeswarmMTU() bool {
	told := 0
	m := vRange(0, 1<<20)
	s := vNewSwarm(&told, 0, 0)
	s.inner = vInnerM{vInner: vInner{told: &told}, m: m}
	vCover("checked")
	return s.MTU()+p2pke.Overhead <= m && s.MTU()+p2pke.Overhead <= noise.MaxMsgLen
}
