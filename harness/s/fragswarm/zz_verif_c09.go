package fragswarm

import (
	"context"
	"encoding/binary"

	"go.brendoncarroll.net/p2p"
	"go.brendoncarroll.net/p2p/s/swarmutil"
)

// C09: MTU is honest. Size arithmetic at full scale with an opaque payload (symbolic length,
// contents untracked): the obligation is decided at the first fragment handed to the inner swarm.

type vInnerSz struct {
	mtu    int
	onTell func(v p2p.IOVec) error
}

func (s vInnerSz) Tell(ctx context.Context, dst vAddr, v p2p.IOVec) error { return s.onTell(v) }
func (s vInnerSz) Receive(ctx context.Context, fn func(p2p.Message[vAddr])) error {
	return nil
}
func (s vInnerSz) LocalAddrs() []vAddr                  { return []vAddr{0} }
func (s vInnerSz) MTU() int                             { return s.mtu }
func (s vInnerSz) Close() error                         { return nil }
func (s vInnerSz) ParseAddr(data []byte) (vAddr, error) { return 0, nil }

// verif: cover=refused,first-fragment bounds="fragswarm.Tell after any number of earlier messages (symbolic 32-bit message id): inner MTU 16..65536, configured MTU 0..2^20, payload length 0..MTU+1 (all symbolic): over MTU refused with the MTU error before anything is sent; otherwise never refused for size, every fragment fits the inner MTU and the announced fragment count is the true count"
func VH_C09_fragTellSizes() bool {
	M := vRange(16, 1<<16)
	mtu := vRange(0, 1<<20)
	size := 0
	told := false
	inner := vInnerSz{mtu: M}
	inner.onTell = func(v p2p.IOVec) error {
		told = true
		vAssert(size <= mtu, "over-mtu-payload-reached-the-inner-swarm")
		vAssert(p2p.VecSize(v) <= M, "fragment-larger-than-inner-mtu")
		vAssert(len(v) == 4, "unexpected-fragment-shape")
		total, n := binary.Uvarint(v[2])
		vAssert(n > 0, "unparsable-fragment-header")
		under := M - Overhead
		want := size / under
		if size%under > 0 {
			want++
		}
		if want == 0 {
			want = 1
		}
		vCover("first-fragment")
		vDone(int(total) == want, "announced-fragment-count-differs-from-true-count")
		return nil
	}
	s := &swarm[vAddr]{Swarm: inner, mtu: mtu, aggs: make(map[aggKey]*aggregator), msgIDs: make(map[string]uint32), tells: swarmutil.NewTellHub[vAddr]()}
	s.msgIDs[keyForAddr(vAddr(1))] = vU32() // any number of earlier messages to this destination
	payload := vOpaque(1<<20 + 1)
	size = len(payload)
	err := s.Tell(context.Background(), 1, p2p.IOVec{payload})
	if size > s.MTU() {
		vCover("refused")
		return err == p2p.ErrMTUExceeded && !told
	}
	return false // a payload within MTU must have reached the inner swarm (vDone ends the path there)
}
