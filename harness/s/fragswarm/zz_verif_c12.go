package fragswarm

import (
	"context"
	"time"

	"go.brendoncarroll.net/p2p"
	"go.brendoncarroll.net/p2p/s/swarmutil"
)

// C12 (fragmenting swarm): Close closes the swarm beneath; the receive loop then ends and closes
// the hub, which wakes a Receive that was blocked with a never-cancelled context.

type vInnerC struct {
	vInner
	closed chan struct{}
	closes *int
}

func (s vInnerC) Receive(ctx context.Context, fn func(p2p.Message[vAddr])) error {
	select {
	case <-s.closed:
		return p2p.ErrClosed
	case <-ctx.Done():
		return ctx.Err()
	}
}

func (s vInnerC) Close() error {
	*s.closes++
	if *s.closes == 1 {
		close(s.closed)
	}
	return nil
}

// verif: replay=schedule unwind=8 preempt=3/5 cover=closed bounds="fragswarm: real recvLoops (1 worker) over an inner swarm whose Receive returns ErrClosed once closed; one goroutine blocked in Receive with a background context; Close; at most 3 (quick) / 5 (thorough) preemptions"
func VH_C12_fragswarmClose() bool {
	var sent []vSent
	closes := 0
	inner := vInnerC{vInner: vInner{mtu: 32, sent: &sent}, closed: make(chan struct{}), closes: &closes}
	s := &swarm[vAddr]{Swarm: inner, mtu: 64, cf: func() {}, aggs: make(map[aggKey]*aggregator), msgIDs: make(map[string]uint32), tells: swarmutil.NewTellHub[vAddr]()}
	go s.recvLoops(context.Background(), 1)
	var r1 error
	d1 := make(chan struct{})
	go func() {
		r1 = s.Receive(context.Background(), func(m p2p.Message[vAddr]) {})
		close(d1)
	}()
	vSettle()
	err := s.Close()
	<-d1 // the blocked Receive must return
	vAssert(err == nil && closes == 1, "inner-swarm-not-closed-exactly-once")
	vAssert(r1 != nil, "blocked-receive-returned-nil-after-close")
	vAssert(s.Receive(context.Background(), func(m p2p.Message[vAddr]) {}) != nil, "receive-after-close-returned-nil")
	vCover("closed")
	return true
}

// vInnerQ behaves like the in-memory swarm: Close waits for a Receive callback that is in flight.
type vInnerQ struct {
	vInner
	closed   chan struct{}
	inbox    chan p2p.Message[vAddr]
	inflight *int
	idle     chan struct{}
}

func (s vInnerQ) Receive(ctx context.Context, fn func(p2p.Message[vAddr])) error {
	select {
	case <-s.closed:
		return p2p.ErrClosed
	case <-ctx.Done():
		return ctx.Err()
	case m := <-s.inbox:
		*s.inflight++
		fn(m)
		*s.inflight--
		select {
		case s.idle <- struct{}{}:
		default:
		}
		return nil
	}
}

func (s vInnerQ) Close() error {
	close(s.closed)
	if *s.inflight > 0 {
		<-s.idle // like swarmutil.Queue.Close: wait for the buffer held by the running callback
	}
	return nil
}

type vCtxF struct {
	done chan struct{}
	err  *error
}

func (c vCtxF) Deadline() (time.Time, bool) { return time.Time{}, false }
func (c vCtxF) Done() <-chan struct{}       { return c.done }
func (c vCtxF) Err() error                  { return *c.err }
func (c vCtxF) Value(key any) any           { return nil }

// verif: replay=schedule unwind=8 preempt=2/4 cover=closed bounds="fragswarm Close while its receive worker holds a message nobody has received yet (parked in the hub), over an inner swarm whose Close waits for in-flight callbacks: Close returns and later Receive fails; at most 2 (quick) / 4 (thorough) preemptions"
func VH_C12_fragswarmCloseWithParkedDelivery() bool {
	var sent []vSent
	inflight := 0
	inner := vInnerQ{vInner: vInner{mtu: 32, sent: &sent}, closed: make(chan struct{}), inbox: make(chan p2p.Message[vAddr], 1), inflight: &inflight, idle: make(chan struct{}, 1)}
	ctx := vCtxF{done: make(chan struct{}), err: new(error)}
	cancel := func() {
		if *ctx.err == nil {
			*ctx.err = p2p.ErrClosed
			close(ctx.done)
		}
	}
	s := &swarm[vAddr]{Swarm: inner, mtu: 64, cf: cancel, aggs: make(map[aggKey]*aggregator), msgIDs: make(map[string]uint32), tells: swarmutil.NewTellHub[vAddr]()}
	inner.inbox <- p2p.Message[vAddr]{Src: 1, Dst: 0, Payload: []byte{0, 0, 1, 42}} // id 0, part 0 of 1
	go s.recvLoops(ctx, 1)
	vSettle()
	err := s.Close() // must not wait forever for the parked delivery
	vAssert(err == nil, "close-failed")
	vAssert(s.Receive(vCtxF{done: ctx.done, err: ctx.err}, func(m p2p.Message[vAddr]) {}) != nil, "receive-after-close-returned-nil")
	vCover("closed")
	return true
}
