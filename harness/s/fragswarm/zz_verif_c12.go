package fragswarm

import (
	"context"

	"go.brendoncarroll.net/p2p"
	"go.brendoncarroll.net/p2p/s/swarmutil"
)

// C12 (fragmenting swarm): Close closes the swarm beneath; the receive loop then ends and closes
// the hub, which wakes a Receive that was blocked with a never-cancelled context.

type vInnerC struct {
	vInner
	closed chan struct{}
	closes *int
}

func (s vInnerC) Receive(ctx context.Context, fn func(p2p.Message[vAddr])) error {
	select {
	case <-s.closed:
		return p2p.ErrClosed
	case <-ctx.Done():
		return ctx.Err()
	}
}

func (s vInnerC) Close() error {
	*s.closes++
	if *s.closes == 1 {
		close(s.closed)
	}
	return nil
}

// verif: replay=schedule unwind=8 preempt=3/5 cover=closed bounds="fragswarm: real recvLoops (1 worker) over an inner swarm whose Receive returns ErrClosed once closed; one goroutine blocked in Receive with a background context; Close; at most 3 (quick) / 5 (thorough) preemptions"
func VH_C12_fragswarmClose() bool {
	var sent []vSent
	closes := 0
	inner := vInnerC{vInner: vInner{mtu: 32, sent: &sent}, closed: make(chan struct{}), closes: &closes}
	s := &swarm[vAddr]{Swarm: inner, mtu: 64, cf: func() {}, aggs: make(map[aggKey]*aggregator), msgIDs: make(map[string]uint32), tells: swarmutil.NewTellHub[vAddr]()}
	go s.recvLoops(context.Background(), 1)
	var r1 error
	d1 := make(chan struct{})
	go func() {
		r1 = s.Receive(context.Background(), func(m p2p.Message[vAddr]) {})
		close(d1)
	}()
	vSettle()
	err := s.Close()
	<-d1 // the blocked Receive must return
	vAssert(err == nil && closes == 1, "inner-swarm-not-closed-exactly-once")
	vAssert(r1 != nil, "blocked-receive-returned-nil-after-close")
	vAssert(s.Receive(context.Background(), func(m p2p.Message[vAddr]) {}) != nil, "receive-after-close-returned-nil")
	vCover("closed")
	return true
}
