package fragswarm

import (
	"context"
	"sync"

	"go.brendoncarroll.net/p2p"
	"go.brendoncarroll.net/p2p/s/swarmutil"
)

// vAddr is a tiny comparable address.
type vAddr uint8

func (a vAddr) MarshalText() ([]byte, error) { return []byte{'a' + byte(a)}, nil }
func (a vAddr) String() string               { return string([]byte{'a' + byte(a)}) }

type vSent struct {
	dst  vAddr
	data []byte
}

// vInner is a recording inner swarm: Tell copies the message into a log.
type vInner struct {
	mtu  int
	sent *[]vSent
}

// the code under test tells fragments from several goroutines (errgroup)
var vInnerMu sync.Mutex

func (s vInner) Tell(ctx context.Context, dst vAddr, v p2p.IOVec) error {
	vInnerMu.Lock()
	defer vInnerMu.Unlock()
	*s.sent = append(*s.sent, vSent{dst: dst, data: p2p.VecBytes(nil, v)})
	return nil
}
func (s vInner) Receive(ctx context.Context, fn func(p2p.Message[vAddr])) error { return nil }
func (s vInner) LocalAddrs() []vAddr                                            { return []vAddr{0} }
func (s vInner) MTU() int                                                       { return s.mtu }
func (s vInner) Close() error                                                   { return nil }
func (s vInner) ParseAddr(data []byte) (vAddr, error)                           { return vAddr(data[0] - 'a'), nil }

// vNewSwarm builds the swarm under test without starting its background loops.
func vNewSwarm(inner vInner, mtu int) *swarm[vAddr] {
	return &swarm[vAddr]{
		Swarm:  inner,
		mtu:    mtu,
		aggs:   make(map[aggKey]*aggregator),
		msgIDs: make(map[string]uint32),
		tells:  swarmutil.NewTellHub[vAddr](),
	}
}

type vGot struct {
	src, dst vAddr
	payload  []byte
}

// vStartReceiver serves up to n deliveries of the swarm's tell hub, logging copies.
func vStartReceiver(s *swarm[vAddr], log *[]vGot, n int) {
	go func() {
		for i := 0; i < n; i++ {
			s.tells.Receive(context.Background(), func(m p2p.Message[vAddr]) {
				*log = append(*log, vGot{src: m.Src, dst: m.Dst, payload: append([]byte{}, m.Payload...)})
			})
		}
	}()
}
