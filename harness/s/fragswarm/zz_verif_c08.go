package fragswarm

import (
	"context"

	"go.brendoncarroll.net/p2p"
)

// C08: no packet or packet sequence makes the fragmenting swarm panic.

// verif: cover=accepted,rejected bounds="every packet of 0..24 bytes (quick) / 0..32 (thorough)"
func VH_C08_fragParseMessage() bool {
	n := 24
	if vThorough() {
		n = 32
	}
	x := vBytes(n)
	_, part, total, data, err := parseMessage(x)
	if err != nil {
		vCover("rejected")
		return true
	}
	vCover("accepted")
	return part < total && len(data) <= len(x)
}

// vSmallTotal restricts a packet's announced fragment count (3 quick, 8 thorough) (uses the real parser).
func vSmallTotal(p []byte) {
	lim := uint8(3)
	if vThorough() {
		lim = 8
	}
	_, _, t, _, err := parseMessage(p)
	vAssume(err != nil || t <= lim)
}

// verif: sched=coop cover=delivered,pending bounds="two packets from one source through handleTell; quick: 0..4 bytes each, announced fragment counts <= 3; thorough: 0..5 bytes, counts <= 8"
func VH_C08_fragHandleTellSeq() bool {
	var sent []vSent
	var got []vGot
	s := vNewSwarm(vInner{mtu: 32, sent: &sent}, 1024)
	vStartReceiver(s, &got, 4)
	ctx := context.Background()
	n := 4
	if vThorough() {
		n = 5
	}
	p1 := vBytes(n)
	p2 := vBytes(n)
	vSmallTotal(p1)
	vSmallTotal(p2)
	s.handleTell(ctx, p2p.Message[vAddr]{Src: 1, Dst: 0, Payload: p1})
	s.handleTell(ctx, p2p.Message[vAddr]{Src: 1, Dst: 0, Payload: p2})
	if len(got) > 0 {
		vCover("delivered")
	} else {
		vCover("pending")
	}
	return true
}
