package vswarm

import (
	"context"
	"errors"
	"time"

	"go.brendoncarroll.net/p2p"
)

// C01 / C09 / C11 for the in-memory swarm.

type vAddr uint8

func (a vAddr) MarshalText() ([]byte, error) { return []byte{'a' + byte(a)}, nil }
func (a vAddr) String() string               { return string([]byte{'a' + byte(a)}) }

type vCtx struct {
	done chan struct{}
	err  *error
}

func vNewCtx() vCtx                        { return vCtx{done: make(chan struct{}), err: new(error)} }
func (c vCtx) Deadline() (time.Time, bool) { return time.Time{}, false }
func (c vCtx) Done() <-chan struct{}       { return c.done }
func (c vCtx) Err() error                  { return *c.err }
func (c vCtx) Value(key any) any           { return nil }

var vErrCanceled = errors.New("harness: canceled")

func (c vCtx) cancel() {
	if *c.err == nil {
		*c.err = vErrCanceled
		close(c.done)
	}
}

func vParse(x []byte) (vAddr, error) { return vAddr(x[0] - 'a'), nil }

// verif: cover=delivered,dropped-unknown bounds="vswarm: realm mtu 4, two swarms; a symbolic message of 0..5 bytes in 2 iovec chunks told to a known or unknown address, with and without a tell transform; sender buffer overwritten after Tell; then Receive: exact payload and addresses, or the MTU error above mtu"
func VH_C01_vswarmTell() bool {
	var opts []Option[vAddr]
	opts = append(opts, WithMTU[vAddr](4))
	if vBool() {
		opts = append(opts, WithTellTransform[vAddr](func(m *p2p.Message[vAddr]) bool { return true }))
	}
	r := New[vAddr](vParse, opts...)
	a, b := r.Create(1), r.Create(2)
	p1, p2 := vBytes(3), vBytes(2)
	want := append(append([]byte{}, p1...), p2...)
	dst := vAddr(2)
	if vBool() {
		dst = 3 // nobody there
	}
	ctx := vNewCtx()
	err := a.Tell(ctx, dst, p2p.IOVec{p1, p2})
	for i := range p1 {
		p1[i] = 0xEE
	}
	for i := range p2 {
		p2[i] = 0xEE
	}
	if len(want) > a.MTU() {
		return err == p2p.ErrMTUExceeded && (*SecureSwarm[vAddr, struct{}])(b).tells.Len() == 0
	}
	vAssert(err == nil, "tell-within-mtu-refused")
	if dst != 2 {
		vCover("dropped-unknown")
		return (*SecureSwarm[vAddr, struct{}])(b).tells.Len() == 0
	}
	n := 0
	rerr := b.Receive(ctx, func(m p2p.Message[vAddr]) {
		n++
		vAssert(m.Src == 1 && m.Dst == 2, "addresses-not-preserved")
		vAssert(vEqBytes(m.Payload, want), "payload-differs-from-what-was-told")
	})
	vCover("delivered")
	return rerr == nil && n == 1
}

// verif: cover=boundary bounds="vswarm: realm mtu symbolic 1..64, payload length 0..66 bytes (forked) : accepted iff length <= MTU()"
func VH_C09_vswarmMTU() bool {
	mtu := vInt(1, 3)
	if mtu == 3 {
		mtu = 64
	}
	r := New[vAddr](vParse, WithMTU[vAddr](mtu))
	a, b := r.Create(1), r.Create(2)
	n := mtu + vInt(-1, 1)
	err := a.Tell(vNewCtx(), 2, p2p.IOVec{make([]byte, n)})
	vCover("boundary")
	if n > a.MTU() {
		return err == p2p.ErrMTUExceeded
	}
	return err == nil && (*SecureSwarm[vAddr, struct{}])(b).tells.Len() == 1
}

// verif: replay=schedule preempt=2/4 unwind=8 cover=answered,handler-error,unreachable,closed bounds="vswarm Ask: destination known/unknown/closed, handler returns -1 or a length with symbolic response bytes, request 0..2 symbolic bytes: success returns exactly the handler's bytes for that request; every failure is an error"
func VH_C11_vswarmAsk() bool {
	r := New[vAddr](vParse)
	a, b := r.Create(1), r.Create(2)
	ctx := vNewCtx()
	req := vBytes(2)
	mode := vInt(0, 3) // 0 ok, 1 handler error, 2 unknown destination, 3 destination closed
	neg := mode == 1
	rb0, rb1 := vByte(), vByte()
	served := make(chan struct{})
	if mode <= 1 {
		go func() {
			b.ServeAsk(ctx, func(ctx context.Context, resp []byte, m p2p.Message[vAddr]) int {
				vAssert(m.Src == 1 && m.Dst == 2 && vEqBytes(m.Payload, req), "handler-saw-wrong-request")
				resp[0], resp[1] = rb0, rb1
				if neg {
					return -1
				}
				return 2
			})
			close(served)
		}()
	}
	dst := vAddr(2)
	if mode == 2 {
		dst = 3
	}
	if mode == 3 {
		b.Close()
	}
	buf := make([]byte, 4)
	n, err := a.Ask(ctx, buf, dst, p2p.IOVec{append([]byte{}, req...)})
	switch mode {
	case 0:
		<-served
		vCover("answered")
		return err == nil && n == 2 && buf[0] == rb0 && buf[1] == rb1
	case 1:
		<-served
		vCover("handler-error")
		return err != nil
	case 2:
		vCover("unreachable")
		return err != nil
	default:
		vCover("closed")
		return err != nil
	}
}
