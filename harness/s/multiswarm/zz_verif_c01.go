package multiswarm

import (
	"context"
	"errors"

	"go.brendoncarroll.net/p2p"
	"go.brendoncarroll.net/p2p/s/swarmutil"
)

// C01 / C09 / C12 for the multi-transport swarm over two recording transport stubs.

type vAddr uint8

func (a vAddr) MarshalText() ([]byte, error) { return []byte{'a' + byte(a)}, nil }
func (a vAddr) String() string               { return string([]byte{'a' + byte(a)}) }

type vSent struct {
	dst  p2p.Addr
	data []byte
}

var vErrClose = errors.New("harness: transport close failed")

// vTransport: Tell records; Receive blocks until the transport is closed (or yields one queued message).
type vTransport struct {
	mtu      int
	sent     *[]vSent
	closed   chan struct{}
	closes   *int
	closeErr bool
	inbox    chan p2p.Message[p2p.Addr]
}

func (t vTransport) Tell(ctx context.Context, dst p2p.Addr, v p2p.IOVec) error {
	*t.sent = append(*t.sent, vSent{dst: dst, data: p2p.VecBytes(nil, v)})
	return nil
}
func (t vTransport) Receive(ctx context.Context, fn func(p2p.Message[p2p.Addr])) error {
	select {
	case <-t.closed:
		return p2p.ErrClosed
	case m := <-t.inbox:
		fn(m)
		return nil
	}
}
func (t vTransport) LocalAddrs() []p2p.Addr                  { return []p2p.Addr{vAddr(0)} }
func (t vTransport) MTU() int                                { return t.mtu }
func (t vTransport) ParseAddr(data []byte) (p2p.Addr, error) { return vAddr(0), nil }
func (t vTransport) Close() error {
	*t.closes++
	if *t.closes == 1 {
		close(t.closed)
	}
	if t.closeErr {
		return vErrClose
	}
	return nil
}

func vNewTransport(mtu int, sent *[]vSent, closes *int, closeErr bool) vTransport {
	return vTransport{mtu: mtu, sent: sent, closed: make(chan struct{}), closes: closes, closeErr: closeErr, inbox: make(chan p2p.Message[p2p.Addr], 1)}
}

func vNewMulti(a, b vTransport) *multiSwarm {
	return &multiSwarm{ctx: context.Background(), swarms: map[string]DynSwarm{"ta": a, "tb": b}, tells: swarmutil.NewTellHub[Addr]()}
}

// verif: cover=routed,no-transport bounds="multiswarm Tell with scheme ta, tb or an unknown one, payload 2 chunks of 0..2 symbolic bytes: exactly the named transport is told the unchanged payload for the inner address; MTU() is the smallest transport MTU (symbolic)"
func VH_C01_multiTellRouting() bool {
	var sa, sb []vSent
	ca, cb := 0, 0
	ma, mb := vRange(0, 1<<16), vRange(0, 1<<16)
	ms := vNewMulti(vNewTransport(ma, &sa, &ca, false), vNewTransport(mb, &sb, &cb, false))
	p1, p2 := vBytes(2), vBytes(2)
	want := append(append([]byte{}, p1...), p2...)
	scheme := [3]string{"ta", "tb", "zz"}[vInt(0, 2)]
	err := ms.Tell(context.Background(), Addr{Scheme: scheme, Addr: vAddr(7)}, p2p.IOVec{p1, p2})
	mtuOK := ms.MTU() <= ma && ms.MTU() <= mb && (ms.MTU() == ma || ms.MTU() == mb)
	switch scheme {
	case "ta":
		vCover("routed")
		return mtuOK && err == nil && len(sa) == 1 && len(sb) == 0 && sa[0].dst == p2p.Addr(vAddr(7)) && vEqBytes(sa[0].data, want)
	case "tb":
		vCover("routed")
		return mtuOK && err == nil && len(sb) == 1 && len(sa) == 0 && sb[0].dst == p2p.Addr(vAddr(7)) && vEqBytes(sb[0].data, want)
	default:
		vCover("no-transport")
		return mtuOK && err != nil && len(sa) == 0 && len(sb) == 0
	}
}

// verif: replay=schedule stubs=egconc unwind=8 preempt=2/4 map_perm_max=2 cover=delivered bounds="multiswarm receive path: the real recvLoops over two transports, a message of 0..2 symbolic bytes arriving on transport tb is delivered once with source and destination wrapped in scheme tb and the payload unchanged"
func VH_C01_multiReceiveWraps() bool {
	var sa, sb []vSent
	ca, cb := 0, 0
	ta, tb := vNewTransport(10, &sa, &ca, false), vNewTransport(10, &sb, &cb, false)
	ms := vNewMulti(ta, tb)
	payload := vBytes(2)
	tb.inbox <- p2p.Message[p2p.Addr]{Src: vAddr(3), Dst: vAddr(4), Payload: append([]byte{}, payload...)}
	go ms.recvLoops(context.Background())
	n := 0
	err := ms.Receive(context.Background(), func(m p2p.Message[Addr]) {
		n++
		vAssert(m.Src.Scheme == "tb" && m.Dst.Scheme == "tb" && m.Src.Addr == p2p.Addr(vAddr(3)) && m.Dst.Addr == p2p.Addr(vAddr(4)), "addresses-not-wrapped-with-the-arriving-transport")
		vAssert(vEqBytes(m.Payload, payload), "payload-changed")
	})
	vCover("delivered")
	return err == nil && n == 1
}

// verif: replay=schedule unwind=8 preempt=2/4 map_perm_max=2 cover=closed bounds="multiswarm Close with one goroutine blocked in Receive; each transport's Close may fail (symbolic): every transport is closed exactly once, the blocked and later Receive calls return a non-nil error"
func VH_C12_multiClose() bool {
	var sa, sb []vSent
	ca, cb := 0, 0
	ea, eb := vBool(), vBool()
	ms := vNewMulti(vNewTransport(10, &sa, &ca, ea), vNewTransport(10, &sb, &cb, eb))
	var r1 error
	d1 := make(chan struct{})
	go func() {
		r1 = ms.Receive(context.Background(), func(m p2p.Message[Addr]) {})
		close(d1)
	}()
	vSettle()
	err := ms.Close()
	<-d1
	vAssert(ca == 1 && cb == 1, "not-every-transport-closed-exactly-once")
	vAssert((err != nil) == (ea || eb), "close-error-not-reported-faithfully")
	vAssert(r1 != nil, "blocked-receive-returned-nil-after-close")
	vAssert(ms.Receive(context.Background(), func(m p2p.Message[Addr]) {}) != nil, "receive-after-close-returned-nil")
	vCover("closed")
	return true
}
