package quicswarm

import (
	"go.brendoncarroll.net/p2p/f/x509"
	"go.brendoncarroll.net/p2p/s/p2pkeswarm"
)

// C17 (fingerprint canonicity across layers): the peer identity derived from a public key must
// be the same in every layer that computes it. The hash functions are engine-level models
// (uninterpreted but functional: equal inputs give equal outputs), so the solver can only show
// equality if both layers apply the same function to the same encoding; the counterexample is
// confirmed against the real hashes by the native replay.

// verif: cover=checked bounds="any key (Ed25519 algorithm id, 2 symbolic data bytes): quicswarm.DefaultFingerprinter(key) == p2pkeswarm.DefaultFingerprinter(key)"
func VH_C17_fingerprintSameAcrossLayers() bool {
	key := x509.PublicKey{Algorithm: x509.Algo_Ed25519, Data: vBytesN(2)}
	a := DefaultFingerprinter(key)
	b := p2pkeswarm.DefaultFingerprinter(&key)
	vCover("checked")
	return a == b
}
