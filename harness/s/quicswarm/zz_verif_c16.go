package quicswarm

import "go.brendoncarroll.net/p2p"

// C16 (compositional wrappers): id@inner addresses survive marshal and parse at any nesting
// (the inner text may itself contain '@'); arbitrary text either fails or parses to a fixed point.

type vTextAddr struct{ s string }

func (a vTextAddr) MarshalText() ([]byte, error) { return []byte(a.s), nil }
func (a vTextAddr) String() string               { return a.s }

func vParseInner(x []byte) (vTextAddr, error) { return vTextAddr{s: string(x)}, nil }

// verif: unwind=64 cover=roundtrip bounds="quicswarm.Addr: every 32-byte id, inner address text of 0..4 arbitrary bytes (including '@'): ParseAddr(MarshalText(a)) == a"
func VH_C16_quicAddrRoundTrip() bool {
	var a Addr[vTextAddr]
	copy(a.ID[:], vBytesN(32))
	a.Addr = vTextAddr{s: string(vBytes(4))}
	txt, err := a.MarshalText()
	if err != nil {
		return false
	}
	b, err := ParseAddr[vTextAddr](vParseInner, txt)
	if err != nil {
		return false
	}
	vCover("roundtrip")
	return b.ID == a.ID && b.Addr.s == a.Addr.s
}

// verif: tier=thorough unwind=64 cover=parsed,rejected bounds="quicswarm.ParseAddr on arbitrary text of 0..46 bytes with at most one CR/LF: fails cleanly, or the parsed address marshals to text that parses back to the same address"
func VH_C16_quicAddrParseFixpoint() bool {
	n := vInt(0, 46)
	t := vBytesN(n)
	nl := 0
	for i := range t {
		nl += vIte(vOr(t[i] == 10, t[i] == 13), 1, 0)
	}
	vAssume(nl <= 1)
	a, err := ParseAddr[vTextAddr](vParseInner, t)
	if err != nil {
		vCover("rejected")
		return true
	}
	vCover("parsed")
	txt, err := a.MarshalText()
	if err != nil {
		return false
	}
	b, err := ParseAddr[vTextAddr](vParseInner, txt)
	if err != nil {
		return false
	}
	return b.ID == a.ID && b.Addr.s == a.Addr.s
}

var _ p2p.Addr = vTextAddr{}
