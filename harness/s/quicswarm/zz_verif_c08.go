package quicswarm

import (
	"encoding/binary"
	"io"
)

// C08 (QUIC frame reader): readFrame over a reader that returns arbitrary bytes in arbitrary
// short reads never panics, never returns more than it was allowed to, and returns the frame body.

type vReader struct {
	data []byte
	pos  *int
}

func (r vReader) Read(p []byte) (int, error) {
	rem := len(r.data) - *r.pos
	if rem == 0 {
		return 0, io.EOF
	}
	if len(p) == 0 {
		return 0, nil
	}
	max := rem
	if len(p) < max {
		max = len(p)
	}
	n := vInt(1, max) // short reads of any size
	copy(p, r.data[*r.pos:*r.pos+n])
	*r.pos += n
	return n, nil
}

// verif: unwind=24 cover=frame,refused bounds="readFrame: stream of 0..7 arbitrary bytes delivered in every pattern of short reads, destination buffer 0..3 bytes, maxLen 0..4"
func VH_C08_quicReadFrame() bool {
	data := vBytes(7)
	pos := 0
	dst := make([]byte, vInt(0, 3))
	maxLen := vInt(0, 4)
	n, err := readFrame(vReader{data: data, pos: &pos}, dst, maxLen)
	if err != nil {
		vCover("refused")
		return true
	}
	vCover("frame")
	if len(data) < 4 {
		return false
	}
	l := int(binary.BigEndian.Uint32(data[:4]))
	ok := n == l && n <= maxLen && n <= len(dst) && len(data) >= 4+n
	if ok {
		ok = vEqBytes(dst[:n], data[4:4+n])
	}
	return ok
}
