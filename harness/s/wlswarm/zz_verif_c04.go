package wlswarm

import (
	"context"
	"errors"

	"go.brendoncarroll.net/p2p"
)

// C04 (whitelist part): a peer rejected by the whitelist never has a message or ask delivered,
// and nothing is sent to a rejected address, for every allow predicate and inner behaviour.

type vAddr uint8

func (a vAddr) MarshalText() ([]byte, error) { return []byte{'a' + byte(a)}, nil }
func (a vAddr) String() string               { return string([]byte{'a' + byte(a)}) }

var vErrInner = errors.New("harness: inner swarm error")

// vInner delivers up to `budget` messages/asks from symbolic sources (2 address bits), then fails.
type vInner struct {
	told   *int
	asked  *int
	budget *int
}

func (s vInner) Tell(ctx context.Context, dst vAddr, v p2p.IOVec) error { *s.told++; return nil }
func (s vInner) Receive(ctx context.Context, fn func(p2p.Message[vAddr])) error {
	if *s.budget == 0 {
		return vErrInner
	}
	*s.budget--
	fn(p2p.Message[vAddr]{Src: vAddr(vByte() & 3), Dst: 0, Payload: []byte{1}})
	return nil
}
func (s vInner) Ask(ctx context.Context, resp []byte, dst vAddr, v p2p.IOVec) (int, error) {
	*s.asked++
	return 0, nil
}
func (s vInner) ServeAsk(ctx context.Context, fn func(context.Context, []byte, p2p.Message[vAddr]) int) error {
	if *s.budget == 0 {
		return vErrInner
	}
	*s.budget--
	n := fn(ctx, make([]byte, 2), p2p.Message[vAddr]{Src: vAddr(vByte() & 3), Dst: 0, Payload: []byte{1}})
	_ = n
	return nil
}
func (s vInner) LocalAddrs() []vAddr                  { return []vAddr{0} }
func (s vInner) MTU() int                             { return 100 }
func (s vInner) Close() error                         { return nil }
func (s vInner) ParseAddr(data []byte) (vAddr, error) { return 0, nil }
func (s vInner) PublicKey() struct{}                  { return struct{}{} }
func (s vInner) LookupPublicKey(ctx context.Context, a vAddr) (struct{}, error) {
	return struct{}{}, nil
}

// verif: unwind=8 cover=delivered-allowed,refused-send,sent bounds="wlswarm: every allow predicate over 2 address bits (symbolic 4-bit table); Tell/Ask to a symbolic address; Receive/ServeAsk over an inner swarm that yields up to 3 messages from symbolic sources then fails"
func VH_C04_whitelist() bool {
	table := vByte() & 15
	allow := func(a vAddr) bool { return (table>>(uint(a)&3))&1 == 1 }
	told, asked, budget := 0, 0, 3
	in := vInner{told: &told, asked: &asked, budget: &budget}
	w := WrapSecureAsk[vAddr, struct{}](in, allow)
	ctx := context.Background()
	dst := vAddr(vByte() & 3)
	terr := w.Tell(ctx, dst, p2p.IOVec{[]byte{1}})
	_, aerr := w.Ask(ctx, make([]byte, 2), dst, p2p.IOVec{[]byte{1}})
	if allow(dst) {
		vCover("sent")
		vAssert(terr == nil && aerr == nil && told == 1 && asked == 1, "allowed-destination-refused")
	} else {
		vCover("refused-send")
		vAssert(terr != nil && aerr != nil && told == 0 && asked == 0, "message-sent-to-rejected-address")
	}
	calls := 0
	rerr := w.Receive(ctx, func(m p2p.Message[vAddr]) {
		calls++
		vAssert(allow(m.Src), "message-from-rejected-peer-delivered")
	})
	if rerr == nil {
		vCover("delivered-allowed")
		vAssert(calls == 1, "receive-success-without-exactly-one-delivery")
	} else {
		vAssert(calls == 0, "receive-error-after-delivery")
	}
	budget = 3
	acalls := 0
	serr := w.ServeAsk(ctx, func(ctx context.Context, resp []byte, m p2p.Message[vAddr]) int {
		acalls++
		vAssert(allow(m.Src), "ask-from-rejected-peer-delivered")
		return 0
	})
	if serr == nil {
		vAssert(acalls == 1, "serveask-success-without-exactly-one-ask")
	} else {
		vAssert(acalls == 0, "serveask-error-after-serving")
	}
	return true
}
