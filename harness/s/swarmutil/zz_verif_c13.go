package swarmutil

import (
	"context"

	"go.brendoncarroll.net/p2p"
)

// C13: cancellation is prompt and each message is handed to exactly one receiver.

// verif: replay=schedule unwind=8 preempt=3/5 cover=delivered bounds="TellHub: 2 receivers (own contexts), 1 deliverer (never-cancelled context), 1 canceller of receiver 0's context; interleavings at channel operations with at most 3 (quick) / 5 (thorough) preemptive context switches"
func VH_C13_tellHubExactlyOnce() bool {
	h := NewTellHub[vAddr]()
	ctx0, ctx1, ctxD := vNewCtx(), vNewCtx(), vNewCtx()
	calls := 0
	cbDone := false
	var r0, r1 error
	d0, d1 := make(chan struct{}), make(chan struct{})
	cb := func(m p2p.Message[vAddr]) {
		vYield() // a scheduling point inside the callback: anything that should wait for it must still be waiting
		calls++
		vAssert(len(m.Payload) == 1 && m.Payload[0] == 7 && m.Src == 1 && m.Dst == 2, "callback-saw-wrong-message")
		cbDone = true
	}
	go func() { r0 = h.Receive(ctx0, cb); close(d0) }()
	go func() { r1 = h.Receive(ctx1, cb); close(d1) }()
	go func() { ctx0.cancel() }()
	vSettle()
	derr := h.Deliver(ctxD, p2p.Message[vAddr]{Src: 1, Dst: 2, Payload: []byte{7}})
	vAssert(derr == nil, "message-lost-deliver-failed-with-live-receiver")
	vAssert(cbDone && calls == 1, "deliver-returned-before-callback-finished")
	<-d0 // a cancelled Receive must return
	vAssert(r0 == nil || r0 == vErrCanceled, "cancelled-receive-returned-unexpected-error")
	ctx1.cancel()
	<-d1
	vAssert(r1 == nil || r1 == vErrCanceled, "receive-returned-unexpected-error")
	vAssert(calls == 1, "message-delivered-to-two-receivers")
	nils := 0
	if r0 == nil {
		nils++
	}
	if r1 == nil {
		nils++
	}
	vAssert(nils == 1, "receive-reported-success-without-a-message")
	vCover("delivered")
	return true
}

// verif: replay=schedule unwind=8 cover=cancelled,delivered bounds="TellHub: 1 receiver, 1 deliverer whose context is cancelled concurrently: Deliver returns nil iff the callback ran"
func VH_C13_tellHubDeliverCancel() bool {
	h := NewTellHub[vAddr]()
	ctxR, ctxD := vNewCtx(), vNewCtx()
	calls := 0
	var rr error
	dr := make(chan struct{})
	go func() {
		rr = h.Receive(ctxR, func(m p2p.Message[vAddr]) { vYield(); calls++ })
		close(dr)
	}()
	go func() { ctxD.cancel() }()
	derr := h.Deliver(ctxD, p2p.Message[vAddr]{Src: 1, Dst: 2, Payload: []byte{7}})
	if derr == nil {
		vAssert(calls == 1, "deliver-success-without-callback")
		vCover("delivered")
	} else {
		vAssert(derr == vErrCanceled, "deliver-returned-unexpected-error")
		vCover("cancelled")
	}
	ctxR.cancel()
	<-dr
	if derr != nil {
		vAssert(calls == 0, "deliver-error-but-callback-saw-message")
		vAssert(rr == vErrCanceled, "receive-returned-success-without-a-message")
	}
	return true
}

// verif: replay=schedule unwind=8 preempt=3/5 cover=served bounds="AskHub: 2 servers (own contexts), 1 asker, 1 canceller of server 0's context: at most 3 (quick) / 5 (thorough) preemptions; exactly one handler runs and the asker gets its answer"
func VH_C13_askHubExactlyOnce() bool {
	h := NewAskHub[vAddr]()
	ctx0, ctx1, ctxD := vNewCtx(), vNewCtx(), vNewCtx()
	calls := 0
	var r0, r1 error
	d0, d1 := make(chan struct{}), make(chan struct{})
	fn := func(ctx context.Context, resp []byte, m p2p.Message[vAddr]) int {
		vYield()
		calls++
		resp[0] = m.Payload[0] + 1
		return 1
	}
	go func() { r0 = h.ServeAsk(ctx0, fn); close(d0) }()
	go func() { r1 = h.ServeAsk(ctx1, fn); close(d1) }()
	go func() { ctx0.cancel() }()
	buf := make([]byte, 4)
	n, derr := h.Deliver(ctxD, buf, p2p.Message[vAddr]{Src: 1, Dst: 2, Payload: []byte{7}})
	vAssert(derr == nil, "ask-lost-with-live-server")
	vAssert(n == 1 && buf[0] == 8 && calls == 1, "ask-answer-wrong-or-handler-not-finished")
	<-d0
	ctx1.cancel()
	<-d1
	vAssert(calls == 1, "ask-served-twice")
	vAssert(r0 == nil || r0 == vErrCanceled, "serveask-unexpected-error")
	vAssert(r1 == nil || r1 == vErrCanceled, "serveask-unexpected-error")
	vCover("served")
	return true
}

// verif: cover=full,drained bounds="Queue(cap 2, mtu 3): 0..3 symbolic messages of 0..4 bytes delivered, then received: FIFO, contents preserved although the sender's buffer is overwritten, oversize refused, slots conserved"
func VH_C13_queueFIFO() bool {
	q := NewQueue[vAddr](2, 3)
	k := vInt(0, 3)
	var sent [][]byte
	for i := 0; i < k; i++ {
		p := vBytes(4)
		orig := append([]byte{}, p...)
		ok := q.Deliver(p2p.Message[vAddr]{Src: vAddr(i), Dst: 9, Payload: p})
		for j := range p {
			p[j] = 0xEE // the sender may reuse its buffer immediately
		}
		if len(orig) > 3 {
			vAssert(!ok, "oversize-message-accepted")
			continue
		}
		if len(sent) == 2 {
			vAssert(!ok, "accepted-beyond-capacity")
			vCover("full")
			continue
		}
		vAssert(ok, "refused-although-slot-free")
		sent = append(sent, append([]byte{byte(i)}, orig...))
	}
	vAssert(q.Len() == len(sent), "queue-length-wrong")
	vAssert(len(q.queue)+len(q.freelist) == 2, "slots-not-conserved")
	ctx := vNewCtx()
	for i := range sent {
		err := q.Receive(ctx, func(m p2p.Message[vAddr]) {
			vAssert(m.Src == vAddr(sent[i][0]) && m.Dst == 9, "wrong-addresses-or-order")
			vAssert(vEqBytes(m.Payload, sent[i][1:]), "payload-differs-from-what-was-delivered")
		})
		vAssert(err == nil, "receive-failed-with-queued-message")
	}
	vAssert(len(q.queue) == 0 && len(q.freelist) == 2, "slots-not-conserved")
	vCover("drained")
	return true
}

// verif: replay=schedule unwind=8 cover=cancelled,served bounds="AskHub: 1 server, 1 asker whose context is cancelled concurrently (also while the handler runs): Deliver returns nil only after the handler finished, and an error only if no handler ever saw the request"
func VH_C13_askHubDeliverCancel() bool {
	h := NewAskHub[vAddr]()
	ctxS, ctxD := vNewCtx(), vNewCtx()
	started, finished := 0, 0
	ds := make(chan struct{})
	go func() {
		h.ServeAsk(ctxS, func(ctx context.Context, resp []byte, m p2p.Message[vAddr]) int {
			started++
			vYield()
			resp[0] = 9
			finished++
			return 1
		})
		close(ds)
	}()
	go func() { ctxD.cancel() }()
	buf := make([]byte, 2)
	n, derr := h.Deliver(ctxD, buf, p2p.Message[vAddr]{Src: 1, Dst: 2, Payload: []byte{7}})
	if derr == nil {
		vCover("served")
		vAssert(started == 1 && finished == 1 && n == 1 && buf[0] == 9, "ask-success-before-handler-finished")
	} else {
		vCover("cancelled")
		vAssert(derr == vErrCanceled, "ask-returned-unexpected-error")
		vAssert(started == 0, "ask-error-although-a-handler-saw-the-request")
	}
	ctxS.cancel()
	<-ds
	return true
}
