package swarmutil

import (
	"errors"
	"time"
)

type vAddr uint8

func (a vAddr) MarshalText() ([]byte, error) { return []byte{'a' + byte(a)}, nil }
func (a vAddr) String() string               { return string([]byte{'a' + byte(a)}) }

// vCtx is a harness context: cancellation is an explicit action.
type vCtx struct {
	done chan struct{}
	err  *error
}

func vNewCtx() vCtx { return vCtx{done: make(chan struct{}), err: new(error)} }

var vErrCanceled = errors.New("harness: context canceled")

func (c vCtx) cancel() {
	if *c.err == nil {
		*c.err = vErrCanceled
		close(c.done)
	}
}
func (c vCtx) Deadline() (time.Time, bool) { return time.Time{}, false }
func (c vCtx) Done() <-chan struct{}       { return c.done }
func (c vCtx) Err() error                  { return *c.err }
func (c vCtx) Value(key any) any           { return nil }

var vErrReason = errors.New("harness: close reason")
