package swarmutil

import (
	"context"

	"go.brendoncarroll.net/p2p"
)

// C11: an Ask returns its own handler's answer or an error, never another's.

// verif: replay=schedule unwind=8 preempt=3/4 cover=both-answered bounds="AskHub: 2 concurrent askers with symbolic 1-byte requests and own buffers, 2 servers serving one ask each, handler result symbolic in {-1,1}; at most 3 (quick) / 4 (thorough) preemptions"
func VH_C11_askHubOwnAnswer() bool {
	h := NewAskHub[vAddr]()
	ctx := vNewCtx()
	x1, x2 := vByte(), vByte()
	neg1, neg2 := vBool(), vBool()
	fn := func(ctx context.Context, resp []byte, m p2p.Message[vAddr]) int {
		vAssert(len(m.Payload) == 1 && ((m.Src == 1 && m.Payload[0] == x1) || (m.Src == 2 && m.Payload[0] == x2)), "handler-saw-wrong-request")
		resp[0] = m.Payload[0] ^ 0x5a
		resp[1] = byte(m.Src)
		if (m.Src == 1 && neg1) || (m.Src == 2 && neg2) {
			return -1
		}
		return 2
	}
	s1, s2 := make(chan struct{}), make(chan struct{})
	go func() { h.ServeAsk(ctx, fn); close(s1) }()
	go func() { h.ServeAsk(ctx, fn); close(s2) }()
	var n2 int
	var e2 error
	b1, b2 := make([]byte, 4), make([]byte, 4)
	d2 := make(chan struct{})
	go func() {
		n2, e2 = h.Deliver(ctx, b2, p2p.Message[vAddr]{Src: 2, Dst: 0, Payload: []byte{x2}})
		close(d2)
	}()
	n1, e1 := h.Deliver(ctx, b1, p2p.Message[vAddr]{Src: 1, Dst: 0, Payload: []byte{x1}})
	<-d2
	<-s1
	<-s2
	vAssert(e1 == nil && e2 == nil, "ask-failed-with-live-server")
	if neg1 {
		vAssert(n1 == -1, "asker-1-did-not-get-its-handlers-result")
	} else {
		vAssert(n1 == 2 && b1[0] == x1^0x5a && b1[1] == 1, "asker-1-did-not-get-its-own-answer")
	}
	if neg2 {
		vAssert(n2 == -1, "asker-2-did-not-get-its-handlers-result")
	} else {
		vAssert(n2 == 2 && b2[0] == x2^0x5a && b2[1] == 2, "asker-2-did-not-get-its-own-answer")
	}
	vCover("both-answered")
	return true
}

// verif: replay=schedule unwind=8 cover=refused bounds="AskHub: Deliver with an already cancelled context or on a closed hub returns an error, never a success; ServeAsk likewise"
func VH_C11_askHubGoneIsError() bool {
	h := NewAskHub[vAddr]()
	ctx := vNewCtx()
	if vBool() {
		ctx.cancel()
	} else if vBool() {
		h.Close()
	} else {
		h.CloseWithError(vErrReason)
	}
	n, err := h.Deliver(ctx, make([]byte, 2), p2p.Message[vAddr]{Src: 1, Payload: []byte{1}})
	vAssert(err != nil && n == 0, "ask-to-gone-destination-succeeded")
	serr := h.ServeAsk(ctx, func(ctx context.Context, resp []byte, m p2p.Message[vAddr]) int { return 0 })
	vAssert(serr != nil, "serveask-on-gone-hub-succeeded")
	vCover("refused")
	return true
}
