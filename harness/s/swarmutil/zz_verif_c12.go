package swarmutil

import (
	"context"

	"go.brendoncarroll.net/p2p"
)

// C12: Close ends everything promptly and for good (hubs and queue).

// verif: replay=schedule unwind=8 preempt=4/6 cover=closed-while-parked bounds="TellHub: 1..2 goroutines in Receive with a never-cancelled context, one closer (nil or non-nil reason), interleavings at channel/once operations and right after a close that woke someone, at most 4 (quick) / 6 (thorough) preemptions; then a later Receive and a repeated Close"
func VH_C12_tellHubClose() bool {
	h := NewTellHub[vAddr]()
	n := vInt(1, 2)
	ctx := vNewCtx()
	res := make([]error, n)
	done := make([]chan struct{}, n)
	closeReturned := false
	for i := 0; i < n; i++ {
		i := i
		done[i] = make(chan struct{})
		go func() {
			res[i] = h.Receive(ctx, func(m p2p.Message[vAddr]) {
				vAssert(!closeReturned, "callback-after-close-returned")
			})
			close(done[i])
		}()
	}
	vSettle()
	var reason error
	if vBool() {
		reason = vErrReason
	}
	h.CloseWithError(reason)
	closeReturned = true
	for i := 0; i < n; i++ {
		<-done[i] // a receiver that never returns leaves the harness blocked: reported as a violation
		vAssert(res[i] != nil, "receive-returned-nil-after-close")
	}
	vCover("closed-while-parked")
	err := h.Receive(ctx, func(m p2p.Message[vAddr]) { vAssert(false, "callback-after-close-returned") })
	vAssert(err != nil, "receive-after-close-returned-nil")
	h.CloseWithError(nil)
	derr := h.Deliver(ctx, p2p.Message[vAddr]{})
	vAssert(derr != nil, "deliver-after-close-returned-nil")
	return true
}

// verif: replay=schedule unwind=8 preempt=4/6 cover=closed-while-parked bounds="AskHub: 1..2 goroutines in ServeAsk with a never-cancelled context, one closer (Close() or CloseWithError(reason)), at most 4 (quick) / 6 (thorough) preemptions; then a later ServeAsk/Deliver and a repeated Close"
func VH_C12_askHubClose() bool {
	h := NewAskHub[vAddr]()
	n := vInt(1, 2)
	ctx := vNewCtx()
	res := make([]error, n)
	done := make([]chan struct{}, n)
	closeReturned := false
	for i := 0; i < n; i++ {
		i := i
		done[i] = make(chan struct{})
		go func() {
			res[i] = h.ServeAsk(ctx, func(ctx context.Context, resp []byte, m p2p.Message[vAddr]) int {
				vAssert(!closeReturned, "callback-after-close-returned")
				return 0
			})
			close(done[i])
		}()
	}
	vSettle()
	if vBool() {
		h.CloseWithError(vErrReason)
	} else {
		h.Close()
	}
	closeReturned = true
	for i := 0; i < n; i++ {
		<-done[i]
		vAssert(res[i] != nil, "serveask-returned-nil-after-close")
	}
	vCover("closed-while-parked")
	err := h.ServeAsk(ctx, func(ctx context.Context, resp []byte, m p2p.Message[vAddr]) int { return 0 })
	vAssert(err != nil, "serveask-after-close-returned-nil")
	h.Close()
	_, derr := h.Deliver(ctx, nil, p2p.Message[vAddr]{})
	vAssert(derr != nil, "deliver-after-close-returned-nil")
	return true
}

// verif: replay=schedule unwind=8 cover=closed bounds="Queue(cap 2): 0..2 queued messages, 1 goroutine in Receive, Close; later Receive/Deliver refuse; repeated Close"
func VH_C12_queueClose() bool {
	q := NewQueue[vAddr](2, 4)
	k := vInt(0, 2)
	for i := 0; i < k; i++ {
		q.Deliver(p2p.Message[vAddr]{Src: 1, Dst: 0, Payload: []byte{byte(i)}})
	}
	ctx := vNewCtx()
	var res error
	done := make(chan struct{})
	go func() {
		res = q.Receive(ctx, func(m p2p.Message[vAddr]) {})
		if res == nil {
			res = q.Receive(ctx, func(m p2p.Message[vAddr]) {})
		}
		if res == nil {
			res = q.Receive(ctx, func(m p2p.Message[vAddr]) {})
		}
		close(done)
	}()
	vSettle()
	q.Close()
	<-done
	vAssert(res != nil, "receive-returned-nil-after-close")
	vCover("closed")
	vAssert(!q.Deliver(p2p.Message[vAddr]{Payload: []byte{1}}), "deliver-accepted-after-close")
	vAssert(q.Receive(ctx, func(m p2p.Message[vAddr]) {}) != nil, "receive-after-close-returned-nil")
	q.Close()
	return true
}
