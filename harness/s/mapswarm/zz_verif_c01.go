package mapswarm

import (
	"context"

	"go.brendoncarroll.net/p2p"
)

// C01 (address-mapped swarm): one-step pass-through over an inner stub.

type vLow uint8
type vHigh uint8

func (a vLow) MarshalText() ([]byte, error)  { return []byte{'a' + byte(a)}, nil }
func (a vLow) String() string                { return string([]byte{'a' + byte(a)}) }
func (a vHigh) MarshalText() ([]byte, error) { return []byte{'A' + byte(a)}, nil }
func (a vHigh) String() string               { return string([]byte{'A' + byte(a)}) }

type vSent struct {
	dst  vLow
	data []byte
}

type vInner struct {
	sent *[]vSent
	in   p2p.Message[vLow]
}

func (s vInner) Tell(ctx context.Context, dst vLow, v p2p.IOVec) error {
	*s.sent = append(*s.sent, vSent{dst: dst, data: p2p.VecBytes(nil, v)})
	return nil
}
func (s vInner) Receive(ctx context.Context, fn func(p2p.Message[vLow])) error {
	fn(s.in)
	return nil
}
func (s vInner) LocalAddrs() []vLow                  { return []vLow{1} }
func (s vInner) MTU() int                            { return 77 }
func (s vInner) Close() error                        { return nil }
func (s vInner) ParseAddr(data []byte) (vLow, error) { return 0, nil }

// verif: cover=checked bounds="mapswarm over an inner stub with the address maps x -> x^k (symbolic k): Tell forwards the unchanged payload to the mapped destination; Receive hands over the inner message with mapped source and destination and the same payload; MTU and local addresses pass through"
func VH_C01_mapswarmPassThrough() bool {
	k := vByte()
	down := func(a vHigh) vLow { return vLow(byte(a) ^ k) }
	up := func(a vLow) vHigh { return vHigh(byte(a) ^ k) }
	var sent []vSent
	src, dst := vLow(vByte()), vLow(vByte())
	inPayload := vBytes(2)
	in := vInner{sent: &sent, in: p2p.Message[vLow]{Src: src, Dst: dst, Payload: inPayload}}
	s := New[vHigh, vLow](in, down, up, func([]byte) (vHigh, error) { return 0, nil })
	p1, p2 := vBytes(2), vBytes(2)
	want := append(append([]byte{}, p1...), p2...)
	to := vHigh(vByte())
	err := s.Tell(context.Background(), to, p2p.IOVec{p1, p2})
	ok := err == nil && len(sent) == 1 && sent[0].dst == down(to) && vEqBytes(sent[0].data, want)
	n := 0
	rerr := s.Receive(context.Background(), func(m p2p.Message[vHigh]) {
		n++
		ok = ok && m.Src == up(src) && m.Dst == up(dst) && vEqBytes(m.Payload, inPayload)
	})
	la := s.LocalAddrs()
	vCover("checked")
	return ok && rerr == nil && n == 1 && s.MTU() == 77 && len(la) == 1 && la[0] == up(1)
}
