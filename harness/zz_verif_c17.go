package p2p

// C17 (PeerID part): text encoding round-trips, preserves order, rejects invalid text.

func vPeerID() PeerID {
	var id PeerID
	copy(id[:], vBytesN(32))
	return id
}

// verif: cover=decoded bounds="every 32-byte id"
func VH_C17_peerIDRoundTrip() bool {
	id := vPeerID()
	txt, err := id.MarshalText()
	if err != nil || len(txt) != 43 {
		return false
	}
	var id2 PeerID
	if err := id2.UnmarshalText(txt); err != nil {
		return false
	}
	vCover("decoded")
	return id2 == id
}

// verif: cover=ordered bounds="every pair of 32-byte ids"
func VH_C17_peerIDOrder() bool {
	a := vPeerID()
	b := vPeerID()
	ta, _ := a.MarshalText()
	tb, _ := b.MarshalText()
	vCover("ordered")
	return (string(ta) < string(tb)) == a.Lt(b)
}

// verif: cover=rejected bounds="every text of length 0..48 except 43 is rejected"
func VH_C17_peerIDWrongLength() bool {
	n := vInt(0, 48)
	vAssume(n != 43)
	txt := vBytesN(n)
	var id PeerID
	err := id.UnmarshalText(txt)
	vCover("rejected")
	return err != nil
}

// reference: index of ch in the alphabet, 64 if absent (branch-free for the solver)
func vAlphaIndex(ch byte) int {
	idx := 64
	for j := 0; j < 64; j++ {
		idx = vIte(ch == Base64Alphabet[j], j, idx)
	}
	return idx
}

// verif: unwind=64 cover=valid,invalid bounds="every 43-byte text with at most 1 CR/LF character: accepted iff all characters are in the alphabet, and then the id is the 256 leading bits (2 CR/LF did not finish within an hour and is outside the claim)"
func VH_C17_peerIDStrictDecode() bool {
	txt := vBytesN(43)
	allValid := true
	nl := 0
	var acc [43]int
	for i := 0; i < 43; i++ {
		acc[i] = vAlphaIndex(txt[i])
		allValid = vAnd(allValid, acc[i] < 64)
		nl += vIte(vOr(txt[i] == 10, txt[i] == 13), 1, 0)
	}
	vAssume(nl <= 1)
	var id PeerID
	err := id.UnmarshalText(txt)
	if !allValid {
		vCover("invalid")
		return err != nil
	}
	vCover("valid")
	if err != nil {
		return false
	}
	// reference decode: concatenate 6-bit indices, take the first 256 bits
	ok := true
	for i := 0; i < 32; i++ {
		bit := i * 8
		q, r := bit/6, bit%6
		v := (acc[q] << 6) | acc[q+1]
		// 12 bits in v, want 8 bits starting at offset r
		b := byte(v >> (4 - r))
		ok = vAnd(ok, id[i] == b)
	}
	return ok
}
