package x509

import "go.brendoncarroll.net/p2p/f/x509/oids"

// C17 (key part that is plain integer/byte code): OID construction round-trips and key equality
// is exactly equality of algorithm and key bytes. The asn1 codec itself (reflection) is outside.

// verif: cover=checked bounds="oids: 0..3 arcs of any non-negative int value: Len, At and ASN1 return the arcs; equal OIDs iff equal arcs"
func VH_C17_oidRoundTrip() bool {
	n := vInt(0, 3)
	xs := make([]int, n)
	ys := make([]int, n)
	same := true
	for i := 0; i < n; i++ {
		xs[i] = int(vU64() >> 1)
		ys[i] = int(vU64() >> 1)
		same = vAnd(same, xs[i] == ys[i])
	}
	a, b := oids.New(xs...), oids.New(ys...)
	ok := a.Len() == n
	as := a.ASN1()
	ok = vAnd(ok, len(as) == n)
	for i := 0; i < n; i++ {
		ok = vAnd(ok, a.At(i) == uint64(xs[i]))
		if len(as) == n {
			ok = vAnd(ok, as[i] == xs[i])
		}
	}
	vCover("checked")
	return vAnd(ok, (a == b) == same)
}

// verif: cover=equal,different bounds="EqualPublicKeys over two keys with algorithm from a set of 3 OIDs and data of 0..3 symbolic bytes (nil and empty included): true exactly when algorithms and data bytes are equal"
func VH_C17_equalPublicKeys() bool {
	algos := [3]oids.OID{oids.New(1, 3, 101, 112), oids.New(1, 3, 101, 113), {}}
	a := PublicKey{Algorithm: algos[vInt(0, 2)], Data: vBytes(3)}
	b := PublicKey{Algorithm: algos[vInt(0, 2)], Data: vBytes(3)}
	if vBool() && len(a.Data) == 0 {
		a.Data = nil
	}
	want := vAnd(a.Algorithm == b.Algorithm, vEqBytes(a.Data, b.Data))
	got := EqualPublicKeys(&a, &b)
	if got {
		vCover("equal")
	} else {
		vCover("different")
	}
	return got == want
}
