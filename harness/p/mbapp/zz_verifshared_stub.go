package mbapp

import (
	"context"
	"sync"

	"go.brendoncarroll.net/p2p"
	"go.brendoncarroll.net/p2p/s/swarmutil"
)

type vAddr uint8

func (a vAddr) MarshalText() ([]byte, error) { return []byte{'a' + byte(a)}, nil }
func (a vAddr) String() string               { return string([]byte{'a' + byte(a)}) }

type vSent struct {
	dst  vAddr
	data []byte
}

// vInner is a recording inner secure swarm.
type vInner struct {
	mtu    int
	sent   *[]vSent
	closes *int
}

// the code under test tells fragments from several goroutines (errgroup)
var vInnerMu sync.Mutex

func (s vInner) Tell(ctx context.Context, dst vAddr, v p2p.IOVec) error {
	vInnerMu.Lock()
	defer vInnerMu.Unlock()
	*s.sent = append(*s.sent, vSent{dst: dst, data: p2p.VecBytes(nil, v)})
	return nil
}
func (s vInner) Receive(ctx context.Context, fn func(p2p.Message[vAddr])) error { return nil }
func (s vInner) LocalAddrs() []vAddr                                            { return []vAddr{0} }
func (s vInner) MTU() int                                                       { return s.mtu }
func (s vInner) Close() error {
	if s.closes != nil {
		*s.closes++
	}
	return nil
}
func (s vInner) ParseAddr(data []byte) (vAddr, error) { return vAddr(data[0] - 'a'), nil }
func (s vInner) PublicKey() struct{}                  { return struct{}{} }
func (s vInner) LookupPublicKey(ctx context.Context, a vAddr) (struct{}, error) {
	return struct{}{}, nil
}

// vNewSwarm builds the message-box swarm without its background goroutines.
func vNewSwarm(inner vInner, mtu int) *Swarm[vAddr, struct{}] {
	return &Swarm[vAddr, struct{}]{
		inner:      inner,
		mtu:        mtu,
		numWorkers: 1,
		fragLayer:  &fragLayer{collectors: make(map[collectorID]*collector), cf: func() {}},
		asker:      newAsker(),
		tells:      swarmutil.NewTellHub[vAddr](),
		asks:       swarmutil.NewAskHub[vAddr](),
	}
}

type vGot struct {
	src, dst vAddr
	payload  []byte
}

func vStartReceiver(s *Swarm[vAddr, struct{}], log *[]vGot, n int) {
	go func() {
		for i := 0; i < n; i++ {
			s.tells.Receive(context.Background(), func(m p2p.Message[vAddr]) {
				*log = append(*log, vGot{src: m.Src, dst: m.Dst, payload: append([]byte{}, m.Payload...)})
			})
		}
	}()
}
