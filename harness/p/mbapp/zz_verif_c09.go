package mbapp

import (
	"context"

	"go.brendoncarroll.net/p2p"
)

// C09: MTU is honest (message-box swarm), opaque payload, decided at the first fragment.

type vInnerSz struct {
	vInner
	onTell func(v p2p.IOVec) error
}

func (s vInnerSz) Tell(ctx context.Context, dst vAddr, v p2p.IOVec) error { return s.onTell(v) }

// verif: time=concrete cover=refused,first-fragment bounds="mbapp Tell: inner MTU 25..65536, configured MTU 0..2^21, payload length 0..MTU+1 (all symbolic): over MTU refused with the MTU error; otherwise never refused for size, every fragment fits the inner MTU, announced part count and total size are the true ones"
func VH_C09_mbappTellSizes() bool {
	M := vRange(HeaderSize+1, 1<<16)
	mtu := vRange(0, 1<<21)
	size := 0
	told := false
	inner := vInnerSz{vInner: vInner{mtu: M}}
	inner.onTell = func(v p2p.IOVec) error {
		told = true
		vAssert(size <= mtu, "over-mtu-payload-reached-the-inner-swarm")
		vAssert(p2p.VecSize(v) <= M, "fragment-larger-than-inner-mtu")
		vAssert(len(v) >= 1 && len(v[0]) == HeaderSize, "unexpected-fragment-shape")
		hdr := Header(v[0])
		part := M - HeaderSize
		want := size / part
		if part*want < size {
			want++
		}
		vCover("first-fragment")
		vAssert(int(hdr.GetTotalSize()) == size, "announced-total-size-differs")
		vDone(int(hdr.GetPartCount()) == want, "announced-part-count-differs-from-true-count")
		return nil
	}
	s := vNewSwarm(vInner{mtu: M}, mtu)
	s.inner = inner
	payload := vOpaque(1<<21 + 1)
	size = len(payload)
	err := s.Tell(context.Background(), 1, p2p.IOVec{payload})
	if size > s.MTU() {
		vCover("refused")
		return err == p2p.ErrMTUExceeded && !told
	}
	return false
}

// verif: time=concrete cover=refused,first-fragment bounds="mbapp Ask: same size obligations as Tell (inner MTU 25..65536, configured MTU 0..2^21, request length 0..MTU+1, all symbolic), decided at the first fragment"
func VH_C09_mbappAskSizes() bool {
	ctx, cancel := context.WithCancel(context.Background())
	defer cancel()
	M := vRange(HeaderSize+1, 1<<16)
	mtu := vRange(0, 1<<21)
	size := 0
	told := false
	inner := vInnerSz{vInner: vInner{mtu: M}}
	inner.onTell = func(v p2p.IOVec) error {
		told = true
		vAssert(size <= mtu, "over-mtu-request-reached-the-inner-swarm")
		vAssert(p2p.VecSize(v) <= M, "fragment-larger-than-inner-mtu")
		hdr := Header(v[0])
		part := M - HeaderSize
		want := size / part
		if part*want < size {
			want++
		}
		vCover("first-fragment")
		vAssert(int(hdr.GetTotalSize()) == size, "announced-total-size-differs")
		vDone(int(hdr.GetPartCount()) == want, "announced-part-count-differs-from-true-count")
		cancel() // natively: let the Ask return instead of waiting for a reply that never comes
		return nil
	}
	s := vNewSwarm(vInner{mtu: M}, mtu)
	s.inner = inner
	payload := vOpaque(1<<21 + 1)
	size = len(payload)
	_, err := s.Ask(ctx, make([]byte, 4), 1, p2p.IOVec{payload})
	if size > s.MTU() {
		vCover("refused")
		return err == p2p.ErrMTUExceeded && !told
	}
	return false
}
