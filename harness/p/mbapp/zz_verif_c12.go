package mbapp

import (
	"context"

	"go.brendoncarroll.net/p2p"
)

// C12 (message-box swarm): Close wakes blocked Receive/ServeAsk calls with a non-nil error,
// closes the swarm beneath, and later calls fail.

// verif: replay=schedule unwind=8 preempt=3/5 cover=closed bounds="mbapp.Swarm.Close with one goroutine blocked in Receive and one in ServeAsk (background context); at most 3 (quick) / 5 (thorough) preemptions"
func VH_C12_mbappClose() bool {
	var sent []vSent
	closes := 0
	s := vNewSwarm(vInner{mtu: 100, sent: &sent, closes: &closes}, 64)
	var r1, r2 error
	d1, d2 := make(chan struct{}), make(chan struct{})
	closeReturned := false
	go func() {
		r1 = s.Receive(context.Background(), func(m p2p.Message[vAddr]) { vAssert(!closeReturned, "callback-after-close-returned") })
		close(d1)
	}()
	go func() {
		r2 = s.ServeAsk(context.Background(), func(ctx context.Context, resp []byte, m p2p.Message[vAddr]) int {
			vAssert(!closeReturned, "callback-after-close-returned")
			return 0
		})
		close(d2)
	}()
	vSettle()
	err := s.Close()
	closeReturned = true
	<-d1
	<-d2
	vAssert(err == nil && closes == 1, "inner-swarm-not-closed-exactly-once")
	vAssert(r1 != nil && r2 != nil, "blocked-call-returned-nil-after-close")
	vAssert(s.Receive(context.Background(), func(m p2p.Message[vAddr]) {}) != nil, "receive-after-close-returned-nil")
	vAssert(s.ServeAsk(context.Background(), func(ctx context.Context, resp []byte, m p2p.Message[vAddr]) int { return 0 }) != nil, "serveask-after-close-returned-nil")
	vCover("closed")
	return true
}
