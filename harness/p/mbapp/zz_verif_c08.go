package mbapp

import "context"

// C08: no packet or packet sequence makes the message-box swarm panic.

// verif: cover=accepted,rejected bounds="every packet of 0..26 bytes: ParseMessage and every header getter"
func VH_C08_mbappParse() bool {
	x := vBytes(26)
	hdr, body, err := ParseMessage(x)
	if err != nil {
		vCover("rejected")
		return true
	}
	vCover("accepted")
	_ = hdr.IsAsk()
	_ = hdr.IsReply()
	_ = hdr.GetErrorCode()
	_ = hdr.GetOriginTime()
	_ = hdr.GetCounter()
	_ = hdr.GetTotalSize()
	_ = hdr.GetPartIndex()
	_ = hdr.GetPartCount()
	_ = hdr.GetTimeout()
	_ = hdr.GroupID()
	return len(hdr) == HeaderSize && len(body) == len(x)-HeaderSize
}

// vTellPacket builds a tell fragment with symbolic counter/size/index/count and a body of 0..maxBody bytes.
func vTellPacket(maxBody int) []byte {
	cm := byte(3)
	if vThorough() {
		cm = 7
		maxBody++
	}
	buf := make([]byte, HeaderSize)
	hdr := Header(buf)
	hdr.SetCounter(uint32(vByte() & 1))
	hdr.SetTotalSize(vU32())
	hdr.SetPartIndex(vU16())
	hdr.SetPartCount(uint16(vByte() & cm))
	return append(buf, vBytes(maxBody)...)
}

// verif: sched=coop time=concrete cover=delivered,pending bounds="two tell fragments from one source (counter 0/1, any totalSize/partIndex, partCount 0..3 and bodies 0..2 bytes (quick) / 0..7 and 0..3 (thorough)) through handleMessage, swarm mtu 8; collector sizes above 8 are refused by the mtu check"
func VH_C08_mbappHandleSeq() bool {
	var sent []vSent
	var got []vGot
	s := vNewSwarm(vInner{mtu: HeaderSize + 2, sent: &sent}, 8)
	vStartReceiver(s, &got, 4)
	ctx := context.Background()
	p1 := vTellPacket(2)
	p2 := vTellPacket(2)
	s.handleMessage(ctx, 1, 0, p1)
	s.handleMessage(ctx, 1, 0, p2)
	if len(got) > 0 {
		vCover("delivered")
	} else {
		vCover("pending")
	}
	return true
}
