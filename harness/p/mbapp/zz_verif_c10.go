package mbapp

import (
	"context"

	"go.brendoncarroll.net/p2p"
)

// C10 / C01 for the message-box swarm: real send -> recording inner swarm -> real handleMessage.

type vFrag struct {
	src  vAddr
	msg  int
	data []byte
}

type vTold struct {
	src     vAddr
	payload []byte
	nfrags  int
}

func vTellAll(innerMTU int, msgs []vTold) ([]vFrag, bool) {
	var frags []vFrag
	senders := map[vAddr]*Swarm[vAddr, struct{}]{}
	logs := map[vAddr]*[]vSent{}
	for i := range msgs {
		m := &msgs[i]
		s, ok := senders[m.src]
		if !ok {
			logs[m.src] = new([]vSent)
			s = vNewSwarm(vInner{mtu: innerMTU, sent: logs[m.src]}, 64)
			senders[m.src] = s
		}
		before := len(*logs[m.src])
		orig := append([]byte{}, m.payload...)
		half := len(m.payload) / 2
		if err := s.Tell(context.Background(), 0, p2p.IOVec{m.payload[:half], m.payload[half:]}); err != nil {
			return nil, false
		}
		if !vEqBytes(orig, m.payload) {
			vAssert(false, "tell-modified-the-senders-buffer")
		}
		for _, x := range (*logs[m.src])[before:] {
			frags = append(frags, vFrag{src: m.src, msg: i, data: x.data})
			m.nfrags++
		}
	}
	return frags, true
}

func vCheckDelivered(got []vGot, msgs []vTold, fed []int, frags []vFrag) {
	for _, g := range got {
		ok := false
		for i := range msgs {
			if msgs[i].src != g.src || !vEqBytes(msgs[i].payload, g.payload) {
				continue
			}
			n := 0
			for j := range frags {
				if frags[j].msg == i && fed[j] > 0 {
					n++
				}
			}
			if n == msgs[i].nfrags {
				ok = true
			}
		}
		vAssert(g.dst == 0, "delivered-with-wrong-destination")
		vAssert(ok, "delivered-payload-is-not-a-complete-message-of-that-source")
	}
}

// verif: sched=coop time=concrete unwind=24 cover=delivered,two-delivered bounds="mbapp: source A tells 2 messages (2 and 3 bytes), source B tells 1 (2 bytes), symbolic contents, inner MTU 25 (1 byte per part, 7 parts); receiver is fed 5 (quick) / 6 (thorough) parts chosen with repetition and omission in every order"
func VH_C10_mbappReassembly() bool {
	msgs := []vTold{{src: 1, payload: vBytesN(2)}, {src: 1, payload: vBytesN(3)}, {src: 2, payload: vBytesN(2)}}
	frags, ok := vTellAll(HeaderSize+1, msgs)
	if !ok {
		return false
	}
	var sent []vSent
	var got []vGot
	r := vNewSwarm(vInner{mtu: HeaderSize + 1, sent: &sent}, 64)
	vStartReceiver(r, &got, 8)
	fed := make([]int, len(frags))
	rbuf := make([]byte, 64)
	steps := 5
	if vThorough() {
		steps = 6
	}
	for k := 0; k < steps; k++ {
		i := vInt(0, len(frags))
		if i == len(frags) {
			break
		}
		fed[i]++
		// the inner swarm recycles one receive buffer: handleMessage must not retain the payload
		nb := copy(rbuf, frags[i].data)
		r.handleMessage(context.Background(), frags[i].src, 0, rbuf[:nb])
		for j := range rbuf {
			rbuf[j] = 0xEE
		}
	}
	vCheckDelivered(got, msgs, fed, frags)
	if len(got) > 0 {
		vCover("delivered")
	}
	if len(got) > 1 {
		vCover("two-delivered")
	}
	return true
}

// verif: sched=coop time=concrete unwind=24 cover=delivered bounds="mbapp round trip: one message of 0..4 symbolic bytes told as 2 iovec chunks over inner MTU 25..27 (1..3 payload bytes per part), all parts delivered in every order: exactly one delivery, payload and addresses intact, sender buffer untouched"
func VH_C01_mbappRoundTrip() bool {
	imtu := vInt(HeaderSize+1, HeaderSize+3)
	msgs := []vTold{{src: 1, payload: vBytes(4)}}
	frags, ok := vTellAll(imtu, msgs)
	if !ok {
		return false
	}
	var sent []vSent
	var got []vGot
	r := vNewSwarm(vInner{mtu: imtu, sent: &sent}, 64)
	vStartReceiver(r, &got, 4)
	rbuf := make([]byte, 64) // the inner swarm recycles its receive buffer
	left := make([]int, len(frags))
	for i := range left {
		left[i] = i
	}
	for len(left) > 0 {
		k := vInt(0, len(left)-1)
		f := frags[left[k]]
		left = append(left[:k], left[k+1:]...)
		nb := copy(rbuf, f.data)
		r.handleMessage(context.Background(), f.src, 0, rbuf[:nb])
		for j := range rbuf {
			rbuf[j] = 0xEE
		}
	}
	vAssert(len(got) == 1, "not-exactly-one-delivery")
	vAssert(got[0].src == 1 && got[0].dst == 0, "addresses-not-preserved")
	vAssert(vEqBytes(got[0].payload, msgs[0].payload), "payload-differs-from-what-was-told")
	vCover("delivered")
	return true
}

// verif: sched=coop time=concrete unwind=24 cover=both-delivered bounds="mbapp: two sources each tell one 2-byte message (2 parts each, same counter and origin millisecond), the 4 parts are delivered once each in every order: both messages arrive intact, each attributed to its real sender"
func VH_C01_mbappTwoSources() bool {
	msgs := []vTold{{src: 1, payload: vBytesN(2)}, {src: 2, payload: vBytesN(2)}}
	frags, ok := vTellAll(HeaderSize+1, msgs)
	if !ok {
		return false
	}
	var sent []vSent
	var got []vGot
	r := vNewSwarm(vInner{mtu: HeaderSize + 1, sent: &sent}, 64)
	vStartReceiver(r, &got, 4)
	rbuf := make([]byte, 64) // the inner swarm recycles its receive buffer
	left := make([]int, len(frags))
	for i := range left {
		left[i] = i
	}
	for len(left) > 0 {
		k := vInt(0, len(left)-1)
		f := frags[left[k]]
		left = append(left[:k], left[k+1:]...)
		nb := copy(rbuf, f.data)
		r.handleMessage(context.Background(), f.src, 0, rbuf[:nb])
		for j := range rbuf {
			rbuf[j] = 0xEE
		}
	}
	vAssert(len(got) == 2, "not-exactly-two-deliveries")
	for _, g := range got {
		vAssert(g.dst == 0 && (g.src == 1 || g.src == 2), "addresses-not-preserved")
		vAssert(vEqBytes(g.payload, msgs[int(g.src)-1].payload), "payload-is-not-what-that-sender-told")
	}
	vAssert(got[0].src != got[1].src, "one-sender-delivered-twice")
	vCover("both-delivered")
	return true
}
