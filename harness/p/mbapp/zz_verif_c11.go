package mbapp

import (
	"context"

	"go.brendoncarroll.net/p2p"
)

// C11 (message-box swarm): two real swarms joined by a synchronous loop-back inner swarm; the
// real Ask -> send -> handleMessage -> AskHub -> handler -> reply -> handleAskReply path.

type vLoop struct {
	vInner
	self  vAddr
	peers *map[vAddr]*Swarm[vAddr, struct{}]
}

func (l vLoop) Tell(ctx context.Context, dst vAddr, v p2p.IOVec) error {
	if p2p.VecSize(v) > l.mtu {
		return p2p.ErrMTUExceeded
	}
	peer := (*l.peers)[dst]
	if peer == nil {
		return nil // dropped
	}
	return peer.handleMessage(ctx, l.self, dst, p2p.VecBytes(nil, v))
}

// verif: sched=coop time=concrete unwind=24 cover=answered,handler-error,does-not-fit bounds="mbapp Ask between two swarms over a loop-back inner swarm (inner MTU 24+2, so requests and responses of 3 bytes travel in 2 parts): request 0..3 symbolic bytes, handler returns -1 or a response of 0..3 symbolic bytes, caller's buffer 0..3 bytes"
func VH_C11_mbappAsk() bool {
	peers := map[vAddr]*Swarm[vAddr, struct{}]{}
	var s1, s2 []vSent
	a := vNewSwarm(vInner{mtu: HeaderSize + 2, sent: &s1}, 16)
	b := vNewSwarm(vInner{mtu: HeaderSize + 2, sent: &s2}, 16)
	a.inner = vLoop{vInner: vInner{mtu: HeaderSize + 2, sent: &s1}, self: 1, peers: &peers}
	b.inner = vLoop{vInner: vInner{mtu: HeaderSize + 2, sent: &s2}, self: 2, peers: &peers}
	peers[1], peers[2] = a, b
	req := vBytes(3)
	respLen := vInt(-1, 3)
	var respBytes []byte
	if respLen > 0 {
		respBytes = vBytesN(respLen)
	}
	handled := 0
	go func() {
		b.ServeAsk(context.Background(), func(ctx context.Context, resp []byte, m p2p.Message[vAddr]) int {
			handled++
			vAssert(m.Src == 1 && m.Dst == 2 && vEqBytes(m.Payload, req), "handler-saw-wrong-request")
			if respLen < 0 {
				return -1
			}
			copy(resp, respBytes)
			return respLen
		})
	}()
	buf := make([]byte, vInt(0, 3))
	n, err := a.Ask(context.Background(), buf, 2, p2p.IOVec{append([]byte{}, req...)})
	vAssert(handled == 1, "handler-not-run-exactly-once")
	switch {
	case respLen < 0:
		vCover("handler-error")
		vAssert(err != nil, "handler-failure-reported-as-success")
	case respLen > len(buf):
		vCover("does-not-fit")
		vAssert(err != nil, "response-that-does-not-fit-reported-as-truncated-success")
	default:
		vCover("answered")
		vAssert(err == nil && n == respLen && vEqBytes(buf[:n], respBytes), "ask-did-not-return-its-handlers-answer")
	}
	return true
}
