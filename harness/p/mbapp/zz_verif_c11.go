package mbapp

import (
	"context"

	"go.brendoncarroll.net/p2p"
)

// C11 (message-box swarm): two real swarms joined by a synchronous loop-back inner swarm; the
// real Ask -> send -> handleMessage -> AskHub -> handler -> reply -> handleAskReply path.

type vLoop struct {
	vInner
	self  vAddr
	peers *map[vAddr]*Swarm[vAddr, struct{}]
}

func (l vLoop) Tell(ctx context.Context, dst vAddr, v p2p.IOVec) error {
	if p2p.VecSize(v) > l.mtu {
		return p2p.ErrMTUExceeded
	}
	peer := (*l.peers)[dst]
	if peer == nil {
		return nil // dropped
	}
	return peer.handleMessage(ctx, l.self, dst, p2p.VecBytes(nil, v))
}

// verif: sched=coop time=concrete unwind=24 cover=answered,handler-error,does-not-fit bounds="mbapp Ask between two swarms over a loop-back inner swarm (inner MTU 24+2, so requests and responses of 3 bytes travel in 2 parts): request 0..3 symbolic bytes, handler returns -1 or a response of 0..3 symbolic bytes, caller's buffer 0..3 bytes"
func VH_C11_mbappAsk() bool {
	peers := map[vAddr]*Swarm[vAddr, struct{}]{}
	var s1, s2 []vSent
	a := vNewSwarm(vInner{mtu: HeaderSize + 2, sent: &s1}, 16)
	b := vNewSwarm(vInner{mtu: HeaderSize + 2, sent: &s2}, 16)
	a.inner = vLoop{vInner: vInner{mtu: HeaderSize + 2, sent: &s1}, self: 1, peers: &peers}
	b.inner = vLoop{vInner: vInner{mtu: HeaderSize + 2, sent: &s2}, self: 2, peers: &peers}
	peers[1], peers[2] = a, b
	req := vBytes(3)
	respLen := vInt(-1, 3)
	var respBytes []byte
	if respLen > 0 {
		respBytes = vBytesN(respLen)
	}
	handled := 0
	go func() {
		b.ServeAsk(context.Background(), func(ctx context.Context, resp []byte, m p2p.Message[vAddr]) int {
			handled++
			vAssert(m.Src == 1 && m.Dst == 2 && vEqBytes(m.Payload, req), "handler-saw-wrong-request")
			if respLen < 0 {
				return -1
			}
			copy(resp, respBytes)
			return respLen
		})
	}()
	bl := vInt(0, 3)
	buf := make([]byte, bl, bl+2) // callers may pass a window of a larger buffer
	n, err := a.Ask(context.Background(), buf, 2, p2p.IOVec{append([]byte{}, req...)})
	vAssert(handled == 1, "handler-not-run-exactly-once")
	switch {
	case respLen < 0:
		vCover("handler-error")
		vAssert(err != nil, "handler-failure-reported-as-success")
	case respLen > len(buf):
		vCover("does-not-fit")
		vAssert(err != nil, "response-that-does-not-fit-reported-as-truncated-success")
	default:
		vCover("answered")
		vAssert(err == nil && n == respLen && vEqBytes(buf[:n], respBytes), "ask-did-not-return-its-handlers-answer")
	}
	return true
}

// verif: replay=schedule sched=coop time=concrete unwind=24 cover=both-answered bounds="mbapp: two asks outstanding at once from one swarm to another (symbolic 1-byte requests, multi-part 3-byte responses derived from the request), two server goroutines answering in either order: each Ask returns the answer computed for its own request"
func VH_C11_mbappTwoOutstandingAsks() bool {
	peers := map[vAddr]*Swarm[vAddr, struct{}]{}
	var s1, s2 []vSent
	a := vNewSwarm(vInner{mtu: HeaderSize + 2, sent: &s1}, 16)
	b := vNewSwarm(vInner{mtu: HeaderSize + 2, sent: &s2}, 16)
	a.inner = vLoop{vInner: vInner{mtu: HeaderSize + 2, sent: &s1}, self: 1, peers: &peers}
	b.inner = vLoop{vInner: vInner{mtu: HeaderSize + 2, sent: &s2}, self: 2, peers: &peers}
	peers[1], peers[2] = a, b
	x1, x2 := vByte(), vByte()
	handler := func(ctx context.Context, resp []byte, m p2p.Message[vAddr]) int {
		resp[0], resp[1], resp[2] = m.Payload[0], m.Payload[0]^0x5a, 0x33
		return 3
	}
	for i := 0; i < 2; i++ {
		go func() { b.ServeAsk(context.Background(), handler) }()
	}
	var n2 int
	var e2 error
	b1, b2 := make([]byte, 3), make([]byte, 3)
	d2 := make(chan struct{})
	go func() {
		n2, e2 = a.Ask(context.Background(), b2, 2, p2p.IOVec{[]byte{x2}})
		close(d2)
	}()
	n1, e1 := a.Ask(context.Background(), b1, 2, p2p.IOVec{[]byte{x1}})
	<-d2
	vAssert(e1 == nil && e2 == nil && n1 == 3 && n2 == 3, "ask-failed-with-live-servers")
	vAssert(b1[0] == x1 && b1[1] == x1^0x5a && b1[2] == 0x33, "first-ask-did-not-get-its-own-answer")
	vAssert(b2[0] == x2 && b2[1] == x2^0x5a && b2[2] == 0x33, "second-ask-did-not-get-its-own-answer")
	vCover("both-answered")
	return true
}
