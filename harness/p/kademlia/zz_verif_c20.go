package kademlia

import (
	"errors"

	"go.brendoncarroll.net/p2p"
)

// C20: iterative DHT operations are bounded, non-redundant and report truthfully.
// All node ids come from a pool of 4 symbolic ids (first byte symbolic, pairwise distinct).

const vPoolMax = 4

// vNet is an adversarial network: node ids form a pool of symbolic ids; what a node answers is
// chosen when it is contacted (a node contacted twice may answer differently, which is allowed).
type vNet struct {
	npool   int
	maxResp int
	pool    [vPoolMax]p2p.PeerID
	asked   [vPoolMax]int
	failed  [vPoolMax]bool
	accepts [vPoolMax]bool
	values  [vPoolMax][]byte
}

// vNewNet: pool ids have a symbolic first byte, pairwise distinct; without loss of generality
// they are numbered by increasing distance from the key (a symmetry reduction, not a restriction).
func vNewNet(key []byte) *vNet {
	// pool 4 with answers of 0..2 ids (tried as the thorough bound) did not finish within 25
	// minutes: outside the claim.
	n := &vNet{npool: 3, maxResp: 1}
	for i := 0; i < n.npool; i++ {
		n.pool[i][0] = vByte()
		vAssume(n.pool[i][0] != 0) // the all-zero id is the library's "no node" sentinel (Closest/From)
		if i > 0 {
			vAssume(DistanceCmp(key, n.pool[i-1][:], n.pool[i][:]) < 0)
		}
	}
	return n
}

func (n *vNet) respond() []NodeInfo {
	var idx []int
	k := vInt(0, n.maxResp)
	for r := 0; r < k; r++ {
		idx = append(idx, vInt(0, n.npool-1))
	}
	return n.infos(idx)
}

func (n *vNet) index(id p2p.PeerID) int {
	for i := 0; i < n.npool; i++ {
		if n.pool[i] == id {
			return i
		}
	}
	return -1
}

func (n *vNet) infos(idx []int) []NodeInfo {
	var out []NodeInfo
	for _, i := range idx {
		out = append(out, NodeInfo{ID: n.pool[i]})
	}
	return out
}

func (n *vNet) initial(max int) []NodeInfo {
	k := vInt(0, max)
	var idx []int
	for r := 0; r < k; r++ {
		idx = append(idx, vInt(0, n.npool-1))
	}
	return n.infos(idx)
}

var vErrAsk = errors.New("ask failed")

// contact records an ask; asking the same node twice is the violation.
func (n *vNet) contact(node NodeInfo) (int, bool) {
	i := n.index(node.ID)
	if i < 0 {
		vAssert(false, "asked-a-node-nobody-mentioned")
		return 0, false
	}
	n.asked[i]++
	vAssert(n.asked[i] <= 1, "node-contacted-twice")
	n.failed[i] = vBool()
	return i, !n.failed[i]
}

func (n *vNet) nearestAsked(key []byte) (best p2p.PeerID, any bool) {
	for i := 0; i < n.npool; i++ {
		if n.asked[i] == 0 {
			continue
		}
		if !any || DistanceLt(key, n.pool[i][:], best[:]) {
			best = n.pool[i]
			any = true
		}
	}
	return best, any
}

// verif: unwind=12 cover=multi-contact bounds="pool of 3 symbolic node ids numbered by distance (symmetry reduction); initial list 0..2 pool nodes; each contacted node answers with 0..1 pool nodes (repeats, self-references, cycles) or fails" map_perm_max=1
func VH_C20_putTruthful() bool {
	key := []byte{vByte()}
	n := vNewNet(key)
	initial := n.initial(2)
	vAssume(len(initial) > 0)
	minAcc := vInt(1, 2)
	res, err := DHTPut(DHTPutParams{
		Initial: initial, Key: key, Value: []byte{1}, MinAccepted: minAcc,
		Ask: func(node NodeInfo, req PutReq) (PutRes, error) {
			i, ok := n.contact(node)
			if !ok {
				return PutRes{}, vErrAsk
			}
			n.accepts[i] = vBool()
			return PutRes{Accepted: n.accepts[i], Closer: n.respond()}, nil
		},
	})
	contacted, accepted := 0, 0
	var bestAcc p2p.PeerID
	anyAcc := false
	for i := 0; i < n.npool; i++ {
		if n.asked[i] > 0 {
			contacted++
			if !n.failed[i] && n.accepts[i] {
				accepted++
				if !anyAcc || DistanceLt(key, n.pool[i][:], bestAcc[:]) {
					bestAcc = n.pool[i]
					anyAcc = true
				}
			}
		}
	}
	if contacted > 1 {
		vCover("multi-contact")
	}
	vAssert(res.Accepted == accepted, "accepted-count-not-distinct-accepting-nodes")
	vAssert((err != nil) == (accepted < minAcc), "error-iff-below-min-accepted")
	if anyAcc {
		// nearest accepting node (what the code tracks) or nearest contacted node (literal reading) both satisfy the property
		bestC, _ := n.nearestAsked(key)
		vAssert(vOr(res.Closest == bestAcc, res.Closest == bestC), "closest-not-nearest-accepting-node")
	}
	return true
}

// verif: unwind=12 cover=multi-contact bounds="pool of 3 symbolic node ids numbered by distance (symmetry reduction); initial list 1..2 pool nodes; each contacted node answers with 0..1 pool nodes or fails" map_perm_max=1
func VH_C20_findNodeTruthful() bool {
	var target p2p.PeerID
	target[0] = vByte()
	n := vNewNet(target[:1])
	initial := n.initial(2)
	vAssume(len(initial) > 0)
	res, err := DHTFindNode(DHTFindNodeParams{
		Initial: initial, Target: target,
		Ask: func(node NodeInfo, req FindNodeReq) (FindNodeRes, error) {
			_, ok := n.contact(node)
			if !ok {
				return FindNodeRes{}, vErrAsk
			}
			return FindNodeRes{Nodes: n.respond()}, nil
		},
	})
	contacted := 0
	for i := 0; i < n.npool; i++ {
		if n.asked[i] > 0 {
			contacted++
		}
	}
	if contacted > 1 {
		vCover("multi-contact")
	}
	// the reported closest node is one the operation learned about, and error iff it is not the target
	vAssert((err == nil) == (res.Closest == target), "error-iff-target-not-found")
	if !res.Closest.IsZero() {
		vAssert(n.index(res.Closest) >= 0, "closest-is-not-a-known-node")
	}
	return true
}

// verif: unwind=12 cover=multi-contact bounds="pool of 3 symbolic node ids numbered by distance (symmetry reduction); initial list 1..2 pool nodes; each contacted node answers with 0..1 pool nodes, a value or none, or fails" map_perm_max=1
func VH_C20_getTruthful() bool {
	key := []byte{vByte()}
	n := vNewNet(key)
	initial := n.initial(2)
	vAssume(len(initial) > 0)
	res, err := DHTGet(DHTGetParams{
		Initial: initial, Key: key,
		Validate: func(v []byte) bool { return len(v) == 1 && v[0] < 0x80 },
		Ask: func(node NodeInfo, req GetReq) (GetRes, error) {
			i, ok := n.contact(node)
			if !ok {
				return GetRes{}, vErrAsk
			}
			switch vInt(0, 2) {
			case 1:
				n.values[i] = []byte{byte(i) + 1} // a value that validates
			case 2:
				n.values[i] = []byte{0xF0 + byte(i)} // a forged value that does not
			}
			return GetRes{Value: n.values[i], Closer: n.respond()}, nil
		},
	})
	contacted := 0
	for i := 0; i < n.npool; i++ {
		if n.asked[i] > 0 {
			contacted++
		}
	}
	if contacted > 1 {
		vCover("multi-contact")
	}
	if err == nil {
		fi := n.index(res.From)
		if fi < 0 || n.asked[fi] == 0 || n.failed[fi] {
			vAssert(false, "value-not-from-a-contacted-node")
			return false
		}
		vAssert(len(res.Value) == 1 && res.Value[0] == byte(fi)+1, "value-not-what-that-node-returned-or-invalid")
	} else {
		vAssert(res.Value == nil, "value-reported-although-nothing-validated")
	}
	if best, any := n.nearestRespondedGet(key); any {
		bestC, _ := n.nearestAsked(key)
		vAssert(vOr(res.Closest == best, res.Closest == bestC), "closest-not-nearest-responding-node")
	}
	return true
}

func (n *vNet) nearestRespondedGet(key []byte) (best p2p.PeerID, any bool) {
	for i := 0; i < n.npool; i++ {
		if n.asked[i] == 0 || n.failed[i] {
			continue
		}
		if !any || DistanceLt(key, n.pool[i][:], best[:]) {
			best = n.pool[i]
			any = true
		}
	}
	return best, any
}

// verif: unwind=12 cover=multi-contact bounds="pool of 3 symbolic node ids numbered by distance (symmetry reduction); initial list 0..2 pool nodes; each contacted node answers with 0..1 pool nodes or fails" map_perm_max=1
func VH_C20_joinBounded() bool {
	var target p2p.PeerID
	target[0] = vByte()
	n := vNewNet(target[:1])
	initial := n.initial(2)
	added := 0
	got := DHTJoin(DHTJoinParams{
		Initial: initial, Target: target,
		AddPeer: func(id p2p.PeerID, info []byte) bool { added++; return true },
		Ask: func(node NodeInfo, req FindNodeReq) (FindNodeRes, error) {
			_, ok := n.contact(node)
			if !ok {
				return FindNodeRes{}, vErrAsk
			}
			return FindNodeRes{Nodes: n.respond()}, nil
		},
	})
	contacted := 0
	for i := 0; i < n.npool; i++ {
		if n.asked[i] > 0 {
			contacted++
		}
	}
	if contacted > 1 {
		vCover("multi-contact")
	}
	return got == added && got == contacted
}

// verif: cover=capped bounds="HandleFindNode with any Limit (symbolic int) over a node with 0..1 (quick) / 0..2 (thorough) peers: never more than 10 nodes, no panic"
func VH_C20_handleFindNodeCap() bool {
	var id p2p.PeerID
	id[0] = vByte()
	node := NewDHTNode(DHTNodeParams{LocalID: id, PeerCacheSize: 8, DataCacheSize: 4})
	k := vInt(0, 1)
	if vThorough() {
		k = vInt(0, 2)
	}
	for i := 0; i < k; i++ {
		var p p2p.PeerID
		p[0] = vByte()
		node.AddPeer(p, nil)
	}
	var target p2p.PeerID
	target[0] = vByte()
	res, err := node.HandleFindNode(id, FindNodeReq{Target: target, Limit: int(vI64())})
	vCover("capped")
	return err == nil && len(res.Nodes) <= 10
}
