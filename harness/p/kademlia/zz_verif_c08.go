package kademlia

import "go.brendoncarroll.net/p2p"

// C08 (DHT handlers): requests with keys of any length, any TTL and any limit never panic.

// verif: time=concrete unwind=24 map_perm_max=1 cover=handled bounds="DHTNode (peer cache 8, data cache 0..1, no peers; HandleFindNode with peers is VH_C20_handleFindNodeCap): HandlePut once (twice in thorough) then HandleGet with keys of 0..1 symbolic bytes and an 8-bit TTL"
func VH_C08_dhtHandlers() bool {
	var id p2p.PeerID
	id[0] = vByte()
	node := NewDHTNode(DHTNodeParams{LocalID: id, PeerCacheSize: 8, DataCacheSize: vInt(0, 1)})
	var from p2p.PeerID
	from[0] = vByte()
	nput := 1
	if vThorough() {
		nput = 2
	}
	for i := 0; i < nput; i++ {
		_, err := node.HandlePut(from, PutReq{Key: vBytes(1), Value: []byte{7}, TTLms: uint64(vByte())})
		if err != nil {
			return false
		}
	}
	_, err := node.HandleGet(from, GetReq{Key: vBytes(1)})
	vCover("handled")
	return err == nil
}
