package kademlia

import (
	"math/bits"
	"time"
)

// C18: the cache is a faithful bounded map that sheds the farthest first.
// Reference model: an association list maintained from what the cache reports.

type vEnt struct {
	key, val byte
	created  time.Time
	expires  time.Time
}

func vTimeNZ() time.Time { return time.Unix(0, int64(vByte()&7)+1) }

func vTimeOrZero() time.Time {
	t := int64(vByte() & 7)
	if t == 0 {
		return time.Time{}
	}
	return time.Unix(0, t)
}

func vModelFind(m []vEnt, k byte) int {
	for i := range m {
		if m[i].key == k {
			return i
		}
	}
	return -1
}

func vModelDel(m []vEnt, i int) []vEnt {
	out := append([]vEnt{}, m[:i]...)
	return append(out, m[i+1:]...)
}

// bucket index of a 1-byte key relative to a 0- or 1-byte locus
func vBucketOf(locus []byte, k byte) int {
	if len(locus) == 0 {
		return 0
	}
	return bits.LeadingZeros8(locus[0] ^ k)
}

// vCheckCache compares the cache with the model; returns false on any disagreement.
func vCheckCache(c *Cache[byte], locus []byte, model []vEnt, max int) bool {
	var seen []Entry[byte]
	c.ForEach(locus, func(e Entry[byte]) bool {
		seen = append(seen, e)
		return true
	})
	if c.Count() != len(seen) {
		vAssert(false, "count-differs-from-entries-held")
		return false
	}
	if c.Count() > max {
		vAssert(false, "count-exceeds-capacity")
		return false
	}
	if len(seen) != len(model) {
		vAssert(false, "entry-vanished-or-appeared-unreported")
		return false
	}
	for i := range model {
		v, ok := c.Get([]byte{model[i].key}, time.Time{})
		if !ok || v != model[i].val {
			vAssert(false, "lookup-does-not-return-latest-value")
			return false
		}
	}
	for i := range seen {
		if len(seen[i].Key) != 1 || vModelFind(model, seen[i].Key[0]) < 0 {
			vAssert(false, "enumerated-entry-not-in-model")
			return false
		}
	}
	return true
}

// vPut performs one Put on cache and model and checks the eviction rule.
func vPut(c *Cache[byte], locus []byte, model []vEnt, minPB int) ([]vEnt, bool) {
	k, v := vByte(), vByte()
	now := vTimeNZ()
	exp := vTimeOrZero()
	kb := []byte{k}
	evicted, _ := c.Update(kb, func(e Entry[byte], exists bool) Entry[byte] {
		return Entry[byte]{Key: kb, Value: v, CreatedAt: now, ExpiresAt: exp}
	})
	kb[0] ^= 0xFF // callers (e.g. the DHT handlers) reuse their key buffers: the cache must own its keys
	if c.max == 0 {
		return model, evicted == nil
	}
	if i := vModelFind(model, k); i >= 0 {
		model[i] = vEnt{k, v, now, exp}
	} else {
		model = append(model, vEnt{k, v, now, exp})
	}
	if evicted == nil {
		return model, true
	}
	vCover("evicted")
	if len(evicted.Key) != 1 {
		vAssert(false, "evicted-entry-malformed")
		return model, false
	}
	vi := vModelFind(model, evicted.Key[0])
	if vi < 0 {
		vAssert(false, "evicted-entry-was-not-held")
		return model, false
	}
	// farthest-first: the victim's bucket is the lowest-index bucket holding more than minPB entries
	var cnt [9]int
	for i := range model {
		cnt[vBucketOf(locus, model[i].key)]++
	}
	first := -1
	for b := 0; b < 9; b++ {
		if cnt[b] > minPB {
			first = b
			break
		}
	}
	if first < 0 {
		// every bucket within its protected minimum: the farthest non-empty bucket gives the victim
		for b := 0; b < 9; b++ {
			if cnt[b] > 0 {
				first = b
				break
			}
		}
	}
	if first < 0 || vBucketOf(locus, evicted.Key[0]) != first {
		vAssert(false, "victim-not-from-farthest-unprotected-bucket")
		return model, false
	}
	return vModelDel(model, vi), true
}

func vDelete(c *Cache[byte], model []vEnt) []vEnt {
	k := vByte()
	c.Delete([]byte{k})
	if i := vModelFind(model, k); i >= 0 {
		vCover("deleted")
		return vModelDel(model, i)
	}
	return model
}

func vExpire(c *Cache[byte], model []vEnt) ([]vEnt, bool) {
	now := vTimeNZ()
	// callers accumulate expired entries over several sweeps: out may be non-empty on entry
	var pre []Entry[byte]
	if vBool() {
		pre = append(pre, Entry[byte]{Key: []byte{0xEE, 0xEE}})
	}
	out := c.Expire(pre, now)
	if len(out) < len(pre) || (len(pre) == 1 && len(out[0].Key) != 2) {
		vAssert(false, "expire-dropped-the-callers-entries")
		return model, false
	}
	out = out[len(pre):]
	var keep []vEnt
	n := 0
	for i := range model {
		if !model[i].expires.IsZero() && model[i].expires.Before(now) {
			n++
			found := false
			for j := range out {
				if len(out[j].Key) == 1 && out[j].Key[0] == model[i].key {
					found = true
				}
			}
			if !found {
				vAssert(false, "expired-entry-not-reported")
				return model, false
			}
		} else {
			keep = append(keep, model[i])
		}
	}
	if n != len(out) {
		vAssert(false, "expire-reported-entry-that-was-not-past-its-time")
		return model, false
	}
	if n > 0 {
		vCover("expired")
	}
	return keep, true
}

// verif: unwind=24 cover=evicted,deleted,expired bounds="locus 0..1 bytes, max 0..3, minPerBucket 0..2 (constructor precondition assumed), 3 operations from put/delete/expire with 1-byte keys, 3-bit instants (4 free operations did not finish in 45 minutes: outside the claim; cacheScripts covers fixed 4-operation shapes)" map_perm_max=1
func VH_C18_cacheOps() bool {
	locus := vBytes(1)
	max := vInt(0, 3)
	minPB := vInt(0, 2)
	vAssume(minPB*8*len(locus) <= max)
	c := NewCache[byte](locus, max, minPB)
	var model []vEnt
	nops := 3
	ok := true
	for i := 0; i < nops; i++ {
		switch vInt(0, 2) {
		case 0:
			model, ok = vPut(c, locus, model, minPB)
		case 1:
			model = vDelete(c, model)
		case 2:
			model, ok = vExpire(c, model)
		}
		if !ok || !vCheckCache(c, locus, model, max) {
			return false
		}
	}
	return true
}

// verif: unwind=24 cover=evicted bounds="locus 1 symbolic byte, max 8, minPerBucket 1, cache pre-filled with one entry per bucket 0..7, then 2 symbolic puts" map_perm_max=1
func VH_C18_cacheFullBuckets() bool {
	l := vByte()
	locus := []byte{l}
	c := NewCache[byte](locus, 8, 1)
	var model []vEnt
	for b := 0; b < 8; b++ {
		k := l ^ (0x80 >> b)
		now := time.Unix(0, int64(b)+1)
		c.Put([]byte{k}, byte(b), now, time.Time{})
		model = append(model, vEnt{k, byte(b), now, time.Time{}})
	}
	if !vCheckCache(c, locus, model, 8) {
		return false
	}
	ok := true
	for i := 0; i < 2; i++ {
		model, ok = vPut(c, locus, model, 1)
		if !ok || !vCheckCache(c, locus, model, 8) {
			return false
		}
	}
	return true
}

// vScripts are fixed 4-operation shapes (P put, D delete, E expire) explored with symbolic
// keys, values and instants: deeper than cacheOps' 3 free operations at a fraction of the paths.
var vScripts = [5]string{"PPDE", "PPEE", "PDPE", "PEPE", "PPEP"}

// verif: unwind=24 cover=evicted,deleted,expired map_perm_max=1 bounds="empty locus (one bucket), max 1..3, scripts PPDE PPEE PDPE (locus 0..1 bytes with all five scripts did not finish within 40 minutes: outside the claim); minPerBucket 0, symbolic 1-byte keys, values and 3-bit instants"
func VH_C18_cacheScripts() bool {
	var locus []byte
	max := vInt(1, 3)
	nscripts := 2
	c := NewCache[byte](locus, max, 0)
	var model []vEnt
	script := vScripts[vInt(0, nscripts)]
	ok := true
	for i := 0; i < len(script); i++ {
		switch script[i] {
		case 'P':
			model, ok = vPut(c, locus, model, 0)
		case 'D':
			model = vDelete(c, model)
		default:
			model, ok = vExpire(c, model)
		}
		if !ok || !vCheckCache(c, locus, model, max) {
			return false
		}
	}
	return true
}
