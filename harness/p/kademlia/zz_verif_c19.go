package kademlia

import (
	"bytes"
	"time"
)

// C19 (distance laws): DistanceCmp agrees with byte-wise comparison of XOR distances.

// verif: cover=lt,eq,gt bounds="x,a,b each 0..3 bytes, every content (64 length triples)"
func VH_C19_distanceCmpAgrees() bool {
	x := vBytes(3)
	a := vBytes(3)
	b := vBytes(3)
	got := DistanceCmp(x, a, b)
	want := bytes.Compare(Distance(x, a), Distance(x, b))
	if got < 0 {
		vCover("lt")
	} else if got == 0 {
		vCover("eq")
	} else {
		vCover("gt")
	}
	return got == want
}

// verif: cover=checked bounds="a,b 0..3 bytes: Distance symmetric, zero iff equal (equal lengths), DistanceLz == LeadingZeros(Distance)"
func VH_C19_distanceLaws() bool {
	a := vBytes(3)
	b := vBytes(3)
	d1 := Distance(a, b)
	d2 := Distance(b, a)
	vCover("checked")
	ok := vEqBytes(d1, d2)
	ok = vAnd(ok, DistanceLz(a, b) == LeadingZeros(d1))
	if len(a) == len(b) {
		zero := true
		for i := range d1 {
			zero = vAnd(zero, d1[i] == 0)
		}
		ok = vAnd(ok, zero == vEqBytes(a, b))
	}
	return ok
}

// verif: cover=checked bounds="x,a,b,c 0..2 bytes: antisymmetry and transitivity of DistanceLt"
func VH_C19_distanceOrder() bool {
	x := vBytes(2)
	a := vBytes(2)
	b := vBytes(2)
	c := vBytes(2)
	vCover("checked")
	ab := DistanceCmp(x, a, b)
	ba := DistanceCmp(x, b, a)
	if ab != -ba {
		return false
	}
	bc := DistanceCmp(x, b, c)
	ac := DistanceCmp(x, a, c)
	if ab <= 0 && bc <= 0 && ac > 0 {
		return false
	}
	if ab == 0 && bc == 0 && ac != 0 {
		return false
	}
	return true
}

// ---- cache queries: nearest-first enumeration, Closest, ForEachCloser, ForEachMatching

// 3 entries (tried as the thorough bound) did not finish within 40 minutes: outside the claim.
func vMaxEntries() int {
	return 2
}

func vBuildCache(locus []byte, n int, klen int) (*Cache[byte], [][]byte) {
	c := NewCache[byte](locus, 8, 0)
	var keys [][]byte
	for i := 0; i < n; i++ {
		k := vBytesN(klen)
		dup := false
		for j := range keys {
			if vEqBytes(keys[j], k) {
				dup = true
			}
		}
		vAssume(!dup)
		c.Put(k, byte(i), time.Unix(0, int64(i)+1), time.Time{})
		keys = append(keys, k)
	}
	return c, keys
}

// verif: unwind=24 cover=max-entries map_perm_max=1 bounds="locus, query key and 0..2 distinct entry keys of 1 byte each, all symbolic: ForEach visits every entry once in non-decreasing XOR distance; Closest is a minimum"
func VH_C19_forEachNearestFirst() bool {
	locus := vBytesN(1)
	n := vInt(0, vMaxEntries())
	c, keys := vBuildCache(locus, n, 1)
	x := vBytesN(1)
	var seen [][]byte
	c.ForEach(x, func(e Entry[byte]) bool {
		seen = append(seen, e.Key)
		return true
	})
	if len(seen) != len(keys) {
		vAssert(false, "foreach-misses-or-repeats-entries")
		return false
	}
	for i := range keys {
		found := 0
		for j := range seen {
			if vEqBytes(seen[j], keys[i]) {
				found++
			}
		}
		if found != 1 {
			vAssert(false, "foreach-misses-or-repeats-entries")
			return false
		}
	}
	for i := 1; i < len(seen); i++ {
		if DistanceCmp(x, seen[i-1], seen[i]) > 0 {
			vAssert(false, "foreach-not-in-nondecreasing-distance")
			return false
		}
	}
	cl := c.Closest(x)
	if (cl == nil) != (len(keys) == 0) {
		vAssert(false, "closest-nil-mismatch")
		return false
	}
	for i := range keys {
		if DistanceCmp(x, keys[i], cl.Key) < 0 {
			vAssert(false, "closest-is-not-a-minimum")
			return false
		}
	}
	if n == vMaxEntries() {
		vCover("max-entries")
	}
	return true
}

// verif: unwind=24 cover=some-closer,none-closer map_perm_max=1 bounds="locus, query key and 0..2 distinct entry keys of 1 byte each: ForEachCloser yields exactly the entries nearer to the key than the locus is"
func VH_C19_forEachCloserExact() bool {
	locus := vBytesN(1)
	n := vInt(0, vMaxEntries())
	c, keys := vBuildCache(locus, n, 1)
	x := vBytesN(1)
	var seen [][]byte
	c.ForEachCloser(x, func(e Entry[byte]) bool {
		seen = append(seen, e.Key)
		return true
	})
	want := 0
	for i := range keys {
		closer := DistanceCmp(x, keys[i], locus) < 0
		found := 0
		for j := range seen {
			if vEqBytes(seen[j], keys[i]) {
				found++
			}
		}
		if closer {
			want++
			if found != 1 {
				vAssert(false, "closer-entry-missing")
				return false
			}
		} else if found != 0 {
			vAssert(false, "not-closer-entry-yielded")
			return false
		}
	}
	if len(seen) != want {
		vAssert(false, "closer-entry-repeated")
		return false
	}
	if want > 0 {
		vCover("some-closer")
	} else {
		vCover("none-closer")
	}
	return true
}

// verif: unwind=24 cover=some-match map_perm_max=1 bounds="locus and 0..1 distinct entry keys of 1 byte, prefix 1 byte, nbits 0..8: ForEachMatching yields exactly the entries sharing the first nbits bits with the prefix"
func VH_C19_forEachMatchingExact() bool {
	locus := vBytesN(1)
	n := vInt(0, vMaxEntries()-1)
	c, keys := vBuildCache(locus, n, 1)
	prefix := vBytesN(1)
	nbits := vInt(0, 8)
	var seen [][]byte
	c.ForEachMatching(prefix, nbits, func(e Entry[byte]) bool {
		seen = append(seen, e.Key)
		return true
	})
	want := 0
	for i := range keys {
		match := (keys[i][0]^prefix[0])>>(8-uint(nbits)) == 0
		found := 0
		for j := range seen {
			if vEqBytes(seen[j], keys[i]) {
				found++
			}
		}
		if match {
			want++
			if found != 1 {
				vAssert(false, "matching-entry-missing")
				return false
			}
		} else if found != 0 {
			vAssert(false, "non-matching-entry-yielded")
			return false
		}
	}
	if want > 0 {
		vCover("some-match")
	}
	return len(seen) == want
}
