package kademlia

import "bytes"

// C19 (distance laws): DistanceCmp agrees with byte-wise comparison of XOR distances.

//verif: cover=lt,eq,gt bounds="x,a,b each 0..3 bytes, every content (64 length triples)"
func VH_C19_distanceCmpAgrees() bool {
	x := vBytes(3)
	a := vBytes(3)
	b := vBytes(3)
	got := DistanceCmp(x, a, b)
	want := bytes.Compare(Distance(x, a), Distance(x, b))
	if got < 0 {
		vCover("lt")
	} else if got == 0 {
		vCover("eq")
	} else {
		vCover("gt")
	}
	return got == want
}

//verif: cover=checked bounds="a,b 0..3 bytes: Distance symmetric, zero iff equal (equal lengths), DistanceLz == LeadingZeros(Distance)"
func VH_C19_distanceLaws() bool {
	a := vBytes(3)
	b := vBytes(3)
	d1 := Distance(a, b)
	d2 := Distance(b, a)
	vCover("checked")
	ok := vEqBytes(d1, d2)
	ok = vAnd(ok, DistanceLz(a, b) == LeadingZeros(d1))
	if len(a) == len(b) {
		zero := true
		for i := range d1 {
			zero = vAnd(zero, d1[i] == 0)
		}
		ok = vAnd(ok, zero == vEqBytes(a, b))
	}
	return ok
}

//verif: cover=checked bounds="x,a,b,c 0..2 bytes: antisymmetry and transitivity of DistanceLt"
func VH_C19_distanceOrder() bool {
	x := vBytes(2)
	a := vBytes(2)
	b := vBytes(2)
	c := vBytes(2)
	vCover("checked")
	ab := DistanceCmp(x, a, b)
	ba := DistanceCmp(x, b, a)
	if ab != -ba {
		return false
	}
	bc := DistanceCmp(x, b, c)
	ac := DistanceCmp(x, a, c)
	if ab <= 0 && bc <= 0 && ac > 0 {
		return false
	}
	if ab == 0 && bc == 0 && ac != 0 {
		return false
	}
	return true
}
