package p2pmux

import "go.brendoncarroll.net/p2p"

// C15: framing is an injection and round-trips for every channel id and payload.

// verif: cover=roundtrip bounds="channel name 0..4 bytes (any content), payload 2 chunks of 0..3 and 0..2 bytes"
func VH_C15_stringRoundTrip() bool {
	cb := vBytes(4)
	c := string(cb)
	p1 := vBytes(3)
	p2 := vBytes(2)
	o1, o2 := vClone(p1), vClone(p2)
	frame := p2p.VecBytes(nil, stringMuxFunc(c, p2p.IOVec{p1, p2}))
	c2, body, err := stringDemuxFunc(frame)
	if err != nil {
		return false
	}
	vCover("roundtrip")
	ok := vAnd(c2 == c, vEqBytes(body, vConcat(o1, o2)))
	return vAnd(ok, vAnd(vEqBytes(p1, o1), vEqBytes(p2, o2)))
}

// verif: cover=roundtrip bounds="channel name 126..130 bytes (2-byte varint length boundary), payload 0..2 bytes"
func VH_C15_stringRoundTripLong() bool {
	n := vInt(126, 130)
	cb := vBytesN(n)
	c := string(cb)
	p1 := vBytes(2)
	frame := p2p.VecBytes(nil, stringMuxFunc(c, p2p.IOVec{p1}))
	c2, body, err := stringDemuxFunc(frame)
	if err != nil {
		return false
	}
	vCover("roundtrip")
	return vAnd(c2 == c, vEqBytes(body, p1))
}

// verif: cover=equal-frames bounds="two (channel,payload) pairs, names 0..3 bytes, payloads 0..3 bytes: equal frames imply equal pairs"
func VH_C15_stringInjective() bool {
	c1 := string(vBytes(3))
	x1 := vBytes(3)
	c2 := string(vBytes(3))
	x2 := vBytes(3)
	f1 := p2p.VecBytes(nil, stringMuxFunc(c1, p2p.IOVec{x1}))
	f2 := p2p.VecBytes(nil, stringMuxFunc(c2, p2p.IOVec{x2}))
	if len(f1) != len(f2) {
		return true
	}
	vAssume(vEqBytes(f1, f2))
	vCover("equal-frames")
	return vAnd(c1 == c2, vEqBytes(x1, x2))
}

// verif: cover=roundtrip bounds="every uint64 channel (varint 1..10 bytes), payload 2 chunks 0..3,0..2 bytes"
func VH_C15_varintRoundTrip() bool {
	c := vU64()
	p1 := vBytes(3)
	p2 := vBytes(2)
	o1, o2 := vClone(p1), vClone(p2)
	frame := p2p.VecBytes(nil, varintMuxFunc(c, p2p.IOVec{p1, p2}))
	c2, body, err := varintDemuxFunc(frame)
	if err != nil {
		return false
	}
	vCover("roundtrip")
	ok := vAnd(c2 == c, vEqBytes(body, vConcat(o1, o2)))
	return vAnd(ok, vAnd(vEqBytes(p1, o1), vEqBytes(p2, o2)))
}

// verif: cover=equal-frames bounds="two (uint64 channel,payload 0..3 bytes) pairs: equal frames imply equal pairs"
func VH_C15_varintInjective() bool {
	c1 := vU64()
	x1 := vBytes(3)
	c2 := vU64()
	x2 := vBytes(3)
	f1 := p2p.VecBytes(nil, varintMuxFunc(c1, p2p.IOVec{x1}))
	f2 := p2p.VecBytes(nil, varintMuxFunc(c2, p2p.IOVec{x2}))
	if len(f1) != len(f2) {
		return true
	}
	vAssume(vEqBytes(f1, f2))
	vCover("equal-frames")
	return vAnd(c1 == c2, vEqBytes(x1, x2))
}

// verif: cover=roundtrip bounds="every uint16 channel, payload 2 chunks 0..3,0..2 bytes"
func VH_C15_uint16RoundTrip() bool {
	c := vU16()
	p1 := vBytes(3)
	p2 := vBytes(2)
	o1, o2 := vClone(p1), vClone(p2)
	frame := p2p.VecBytes(nil, uint16MuxFunc(c, p2p.IOVec{p1, p2}))
	c2, body, err := uint16DemuxFunc(frame)
	if err != nil {
		return false
	}
	vCover("roundtrip")
	ok := vAnd(c2 == c, vEqBytes(body, vConcat(o1, o2)))
	return vAnd(ok, vAnd(vEqBytes(p1, o1), vEqBytes(p2, o2)))
}

// verif: cover=roundtrip bounds="every uint32 channel, payload 2 chunks 0..3,0..2 bytes"
func VH_C15_uint32RoundTrip() bool {
	c := vU32()
	p1 := vBytes(3)
	p2 := vBytes(2)
	o1, o2 := vClone(p1), vClone(p2)
	frame := p2p.VecBytes(nil, uint32MuxFunc(c, p2p.IOVec{p1, p2}))
	c2, body, err := uint32DemuxFunc(frame)
	if err != nil {
		return false
	}
	vCover("roundtrip")
	ok := vAnd(c2 == c, vEqBytes(body, vConcat(o1, o2)))
	return vAnd(ok, vAnd(vEqBytes(p1, o1), vEqBytes(p2, o2)))
}

// verif: cover=roundtrip bounds="every uint64 channel, payload 2 chunks 0..3,0..2 bytes"
func VH_C15_uint64RoundTrip() bool {
	c := vU64()
	p1 := vBytes(3)
	p2 := vBytes(2)
	o1, o2 := vClone(p1), vClone(p2)
	frame := p2p.VecBytes(nil, uint64MuxFunc(c, p2p.IOVec{p1, p2}))
	c2, body, err := uint64DemuxFunc(frame)
	if err != nil {
		return false
	}
	vCover("roundtrip")
	ok := vAnd(c2 == c, vEqBytes(body, vConcat(o1, o2)))
	return vAnd(ok, vAnd(vEqBytes(p1, o1), vEqBytes(p2, o2)))
}

// vTwoLive: two frames alive at once must not share state; the caller's vector (with spare
// capacity, as a pooled or append-grown vector has) must be left exactly as it was.
func vTwoLive[C comparable](mf muxFunc[C], df demuxFunc[C], c1, c2 C) bool {
	p1, p2 := vBytes(2), vBytes(2)
	q1 := vBytes(2)
	o1, o2 := vClone(p1), vClone(p2)
	iov := make(p2p.IOVec, 2, 5)
	iov[0], iov[1] = p1, p2
	f1 := mf(c1, iov)
	f2 := mf(c2, p2p.IOVec{q1})
	ok := vAnd(len(iov) == 2, vAnd(vEqBytes(iov[0], o1), vEqBytes(iov[1], o2)))
	g1, b1, err1 := df(p2p.VecBytes(nil, f1))
	g2, b2, err2 := df(p2p.VecBytes(nil, f2))
	if err1 != nil || err2 != nil {
		return false
	}
	ok = vAnd(ok, vAnd(g1 == c1, vEqBytes(b1, vConcat(o1, o2))))
	return vAnd(ok, vAnd(g2 == c2, vEqBytes(b2, q1)))
}

// verif: cover=checked bounds="string framing: two frames for symbolic channels (0..2 bytes) alive at the same time each still decode to their own (channel, payload); the caller's iovec (len 2, cap 5) is untouched"
func VH_C15_twoLiveFramesString() bool {
	vCover("checked")
	return vTwoLive[string](stringMuxFunc, stringDemuxFunc, string(vBytes(2)), string(vBytes(2)))
}

// verif: cover=checked bounds="varint framing: as twoLiveFramesString, any uint64 channels"
func VH_C15_twoLiveFramesVarint() bool {
	vCover("checked")
	return vTwoLive[uint64](varintMuxFunc, varintDemuxFunc, vU64(), vU64())
}

// verif: cover=checked bounds="uint16 framing: as twoLiveFramesString, any channels"
func VH_C15_twoLiveFramesFixed16() bool {
	vCover("checked")
	return vTwoLive[uint16](uint16MuxFunc, uint16DemuxFunc, vU16(), vU16())
}

// verif: cover=checked bounds="uint32 framing: as twoLiveFramesString"
func VH_C15_twoLiveFramesFixed32() bool {
	vCover("checked")
	return vTwoLive[uint32](uint32MuxFunc, uint32DemuxFunc, vU32(), vU32())
}

// verif: cover=checked bounds="uint64 framing: as twoLiveFramesString"
func VH_C15_twoLiveFramesFixed64() bool {
	vCover("checked")
	return vTwoLive[uint64](uint64MuxFunc, uint64DemuxFunc, vU64(), vU64())
}
