package p2pmux

import (
	"context"

	"go.brendoncarroll.net/p2p"
)

// C12 (multiplexed swarm): closing the swarm opened for a channel wakes its blocked receivers
// with a non-nil error, removes the channel, and refuses further Tell/Receive.

// verif: replay=schedule unwind=8 preempt=3/5 cover=closed bounds="p2pmux muxed swarm Close with one goroutine blocked in Receive; symbolic channel name 0..2 bytes; at most 3 (quick) / 5 (thorough) preemptions"
func VH_C12_muxedSwarmClose() bool {
	var sent []vSentM
	mc := &muxCore[vAddr, string, struct{}]{swarm: vInnerRec{sent: &sent}, muxFunc: stringMuxFunc, demuxFunc: stringDemuxFunc}
	c := string(vBytes(2))
	ms := mc.open(c)
	var r1 error
	d1 := make(chan struct{})
	go func() {
		r1 = ms.Receive(context.Background(), func(m p2p.Message[vAddr]) {})
		close(d1)
	}()
	vSettle()
	err := ms.Close()
	<-d1
	vAssert(err == nil && r1 != nil, "blocked-receive-returned-nil-after-close")
	vAssert(ms.Receive(context.Background(), func(m p2p.Message[vAddr]) {}) != nil, "receive-after-close-returned-nil")
	vAssert(ms.Tell(context.Background(), 1, p2p.IOVec{[]byte{1}}) != nil && len(sent) == 0, "tell-after-close-accepted")
	_, gerr := mc.getSwarm(c)
	vAssert(gerr != nil, "closed-channel-still-registered")
	// a frame for the closed channel is no longer delivered
	frame := p2p.VecBytes(nil, stringMuxFunc(c, p2p.IOVec{[]byte{9}}))
	vAssert(mc.handleRecv(context.Background(), p2p.Message[vAddr]{Src: 1, Dst: 0, Payload: frame}) != nil, "frame-delivered-to-closed-channel")
	vCover("closed")
	return true
}
