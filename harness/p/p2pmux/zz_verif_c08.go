package p2pmux

// C08: no byte string makes a demultiplexer panic; accepted frames never exceed the input.

func VH_C08_stringDemux() bool {
	x := vBytes(12)
	c, body, err := stringDemuxFunc(x)
	if err != nil {
		return true
	}
	vCover("accepted")
	return len(c)+len(body) <= len(x)
}

func VH_C08_varintDemux() bool {
	x := vBytes(12)
	_, body, err := varintDemuxFunc(x)
	if err != nil {
		return true
	}
	vCover("accepted")
	return len(body) < len(x)
}

func VH_C08_uint16Demux() bool {
	x := vBytes(4)
	_, body, err := uint16DemuxFunc(x)
	if err != nil {
		return true
	}
	vCover("accepted")
	return len(body)+2 == len(x)
}

func VH_C08_uint32Demux() bool {
	x := vBytes(6)
	_, body, err := uint32DemuxFunc(x)
	if err != nil {
		return true
	}
	vCover("accepted")
	return len(body)+4 == len(x)
}

func VH_C08_uint64Demux() bool {
	x := vBytes(10)
	_, body, err := uint64DemuxFunc(x)
	if err != nil {
		return true
	}
	vCover("accepted")
	return len(body)+8 == len(x)
}
