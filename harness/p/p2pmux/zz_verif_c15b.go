package p2pmux

import (
	"context"

	"go.brendoncarroll.net/p2p"
)

// C15 (dispatch) / C01 (pass-through): the real tell and handleRecv of a string multiplexer with
// two open channels over a recording inner swarm.

type vGotM struct {
	src, dst vAddr
	payload  []byte
}

func vServe(ms *muxedSwarm[vAddr, string, struct{}], log *[]vGotM) {
	go func() {
		for i := 0; i < 2; i++ {
			ms.Receive(context.Background(), func(m p2p.Message[vAddr]) {
				*log = append(*log, vGotM{src: m.Src, dst: m.Dst, payload: append([]byte{}, m.Payload...)})
			})
		}
	}()
}

// verif: sched=coop unwind=24 cover=to-c1,to-c2,to-none bounds="string mux with two open channels c1 != c2 (0..2 symbolic bytes each); a frame muxed for a symbolic channel c (0..2 bytes) with a 0..2 byte payload is fed to the real handleRecv: it reaches exactly the swarm opened for c, unchanged, or nobody"
func VH_C15_dispatchIsolation() bool {
	var sent []vSentM
	mc := &muxCore[vAddr, string, struct{}]{swarm: vInnerRec{sent: &sent}, muxFunc: stringMuxFunc, demuxFunc: stringDemuxFunc}
	c1, c2 := string(vBytes(2)), string(vBytes(2))
	vAssume(c1 != c2)
	m1, m2 := mc.open(c1), mc.open(c2)
	var g1, g2 []vGotM
	vServe(m1, &g1)
	vServe(m2, &g2)
	c := string(vBytes(2))
	payload := vBytes(2)
	frame := p2p.VecBytes(nil, stringMuxFunc(c, p2p.IOVec{payload}))
	err := mc.handleRecv(context.Background(), p2p.Message[vAddr]{Src: 5, Dst: 6, Payload: frame})
	switch {
	case c == c1:
		vCover("to-c1")
		vAssert(err == nil && len(g1) == 1 && len(g2) == 0, "frame-for-c1-not-delivered-only-to-c1")
		vAssert(g1[0].src == 5 && g1[0].dst == 6 && vEqBytes(g1[0].payload, payload), "payload-or-addresses-changed")
	case c == c2:
		vCover("to-c2")
		vAssert(err == nil && len(g2) == 1 && len(g1) == 0, "frame-for-c2-not-delivered-only-to-c2")
		vAssert(g2[0].src == 5 && g2[0].dst == 6 && vEqBytes(g2[0].payload, payload), "payload-or-addresses-changed")
	default:
		vCover("to-none")
		vAssert(err != nil && len(g1) == 0 && len(g2) == 0, "frame-for-unknown-channel-delivered")
	}
	return true
}

// verif: cover=told bounds="string mux Tell on channel c (0..2 symbolic bytes), payload 2 chunks of 0..2 bytes: the inner swarm is told exactly mux(c, payload) for the same destination; the sender's buffers are untouched"
func VH_C01_muxTellPassThrough() bool {
	var sent []vSentM
	mc := &muxCore[vAddr, string, struct{}]{swarm: vInnerRec{sent: &sent}, muxFunc: stringMuxFunc, demuxFunc: stringDemuxFunc}
	c := string(vBytes(2))
	ms := mc.open(c)
	p1, p2 := vBytes(2), vBytes(2)
	o1, o2 := vClone(p1), vClone(p2)
	err := ms.Tell(context.Background(), 9, p2p.IOVec{p1, p2})
	vCover("told")
	vAssert(err == nil && len(sent) == 1 && sent[0].dst == 9, "not-exactly-one-inner-tell-to-the-destination")
	c2, body, derr := stringDemuxFunc(sent[0].data)
	vAssert(derr == nil && c2 == c && vEqBytes(body, vConcat(o1, o2)), "inner-frame-is-not-mux-of-channel-and-payload")
	vAssert(vEqBytes(p1, o1) && vEqBytes(p2, o2), "tell-modified-the-senders-buffer")
	return true
}

func vServeU(ms *muxedSwarm[vAddr, uint64, struct{}], log *[]vGotM) {
	go func() {
		for i := 0; i < 2; i++ {
			ms.Receive(context.Background(), func(m p2p.Message[vAddr]) {
				*log = append(*log, vGotM{src: m.Src, dst: m.Dst, payload: append([]byte{}, m.Payload...)})
			})
		}
	}()
}

// verif: sched=coop unwind=24 cover=to-c1,to-c2,to-none bounds="varint mux with two open channels c1 != c2 (any uint64); a frame muxed for a symbolic channel c with a 0..2 byte payload through the real handleRecv reaches exactly the swarm opened for c, or nobody"
func VH_C15_dispatchIsolationVarint() bool {
	var sent []vSentM
	mc := &muxCore[vAddr, uint64, struct{}]{swarm: vInnerRec{sent: &sent}, muxFunc: varintMuxFunc, demuxFunc: varintDemuxFunc}
	c1, c2 := vU64(), vU64()
	vAssume(c1 != c2)
	m1, m2 := mc.open(c1), mc.open(c2)
	var g1, g2 []vGotM
	vServeU(m1, &g1)
	vServeU(m2, &g2)
	c := vU64()
	payload := vBytes(2)
	frame := p2p.VecBytes(nil, varintMuxFunc(c, p2p.IOVec{payload}))
	err := mc.handleRecv(context.Background(), p2p.Message[vAddr]{Src: 5, Dst: 6, Payload: frame})
	switch {
	case c == c1:
		vCover("to-c1")
		vAssert(err == nil && len(g1) == 1 && len(g2) == 0 && vEqBytes(g1[0].payload, payload), "frame-for-c1-not-delivered-only-to-c1")
	case c == c2:
		vCover("to-c2")
		vAssert(err == nil && len(g2) == 1 && len(g1) == 0 && vEqBytes(g2[0].payload, payload), "frame-for-c2-not-delivered-only-to-c2")
	default:
		vCover("to-none")
		vAssert(err != nil && len(g1) == 0 && len(g2) == 0, "frame-for-unknown-channel-delivered")
	}
	return true
}
