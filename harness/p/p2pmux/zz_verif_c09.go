package p2pmux

import (
	"context"

	"go.brendoncarroll.net/p2p"
)

// C09: a multiplexed swarm's MTU plus its channel header fits the swarm beneath, for every
// channel identifier and every inner MTU.

type vInnerMTU struct{ mtu int }

func (s vInnerMTU) Tell(ctx context.Context, dst vAddr, v p2p.IOVec) error { return nil }
func (s vInnerMTU) Receive(ctx context.Context, fn func(p2p.Message[vAddr])) error {
	return nil
}
func (s vInnerMTU) LocalAddrs() []vAddr                  { return []vAddr{0} }
func (s vInnerMTU) MTU() int                             { return s.mtu }
func (s vInnerMTU) Close() error                         { return nil }
func (s vInnerMTU) ParseAddr(data []byte) (vAddr, error) { return 0, nil }

func vMuxMTUFits[C comparable](mf muxFunc[C], cid C, m int) bool {
	ms := &muxedSwarm[vAddr, C, struct{}]{cid: cid, m: &muxCore[vAddr, C, struct{}]{swarm: vInnerMTU{mtu: m}, muxFunc: mf}}
	hdr := p2p.VecSize(mf(cid, nil))
	return ms.MTU()+hdr <= m
}

// verif: cover=checked bounds="string mux: channel names of 0..4 and 126..130 bytes, inner MTU 0..2^20 symbolic"
func VH_C09_muxMTUString() bool {
	m := vRange(0, 1<<20)
	n := vInt(0, 9)
	if n > 4 {
		n += 121
	}
	c := string(vBytesN(n))
	vCover("checked")
	return vMuxMTUFits[string](stringMuxFunc, c, m)
}

// verif: cover=checked bounds="varint mux: every uint64 channel, inner MTU 0..2^20 symbolic"
func VH_C09_muxMTUVarint() bool {
	m := vRange(0, 1<<20)
	vCover("checked")
	return vMuxMTUFits[uint64](varintMuxFunc, vU64(), m)
}

// verif: cover=checked bounds="uint16/uint32/uint64 muxes: every channel, inner MTU 0..2^20 symbolic"
func VH_C09_muxMTUFixed() bool {
	m := vRange(0, 1<<20)
	vCover("checked")
	ok := vMuxMTUFits[uint16](uint16MuxFunc, vU16(), m)
	ok = vAnd(ok, vMuxMTUFits[uint32](uint32MuxFunc, vU32(), m))
	return vAnd(ok, vMuxMTUFits[uint64](uint64MuxFunc, vU64(), m))
}
