package p2pmux

import (
	"context"
	"errors"

	"go.brendoncarroll.net/p2p"
)

// C11 (multiplexer ask path): the real serveLoop handler over an inner ask-server stub. An ask for
// a channel whose swarm is closed while the ask is pending (or that nobody serves) must be
// answered with a failure, never with an empty success.

type vAskInner struct {
	vInnerRec
	frame  []byte
	result *int
	calls  *int
}

var vErrStop = errors.New("harness: inner swarm stopped")

func (s vAskInner) Ask(ctx context.Context, resp []byte, dst vAddr, v p2p.IOVec) (int, error) {
	return 0, nil
}

// ServeAsk hands exactly one request (the prepared frame) to the multiplexer's handler, then stops.
func (s vAskInner) ServeAsk(ctx context.Context, fn func(context.Context, []byte, p2p.Message[vAddr]) int) error {
	if *s.calls > 0 {
		return vErrStop
	}
	*s.calls++
	*s.result = fn(ctx, make([]byte, 4), p2p.Message[vAddr]{Src: 5, Dst: 6, Payload: s.frame})
	return nil
}

// verif: replay=schedule unwind=8 preempt=3/5 cover=served,closed-while-pending bounds="string mux serveLoop: one ask for channel c (0..2 symbolic bytes, 1-byte request); either a server answers it (handler result 2 with symbolic bytes) or the channel's swarm is closed while the ask is pending; at most 3 (quick) / 5 (thorough) preemptions"
func VH_C11_muxAskServedOrFailed() bool {
	var sent []vSentM
	c := string(vBytes(2))
	x := vByte()
	result, calls := 0, 0
	inner := vAskInner{vInnerRec: vInnerRec{sent: &sent}, frame: p2p.VecBytes(nil, stringMuxFunc(c, p2p.IOVec{[]byte{x}})), result: &result, calls: &calls}
	mc := &muxCore[vAddr, string, struct{}]{swarm: inner, asker: inner, muxFunc: stringMuxFunc, demuxFunc: stringDemuxFunc}
	ms := mc.open(c)
	served := vBool()
	handled := 0
	if served {
		go func() {
			ms.ServeAsk(context.Background(), func(ctx context.Context, resp []byte, m p2p.Message[vAddr]) int {
				handled++
				vAssert(m.Src == 5 && m.Dst == 6 && len(m.Payload) == 1 && m.Payload[0] == x, "handler-saw-wrong-request")
				resp[0], resp[1] = x^0x5a, 7
				return 2
			})
		}()
	} else {
		go func() { ms.Close() }()
	}
	mc.serveLoop(context.Background()) // returns after the inner stub stops
	if served {
		vCover("served")
		vAssert(handled == 1 && result == 2, "served-ask-did-not-return-the-handlers-result")
	} else {
		vCover("closed-while-pending")
		vAssert(result < 0, "ask-for-a-closed-channel-answered-with-an-empty-success")
	}
	return true
}
