package p2pmux

type vAddr uint8

func (a vAddr) MarshalText() ([]byte, error) { return []byte{'a' + byte(a)}, nil }
func (a vAddr) String() string               { return string([]byte{'a' + byte(a)}) }

func vClone(x []byte) []byte { return append([]byte{}, x...) }

func vConcat(a, b []byte) []byte { return append(vClone(a), b...) }
