package p2pmux

import (
	"context"

	"go.brendoncarroll.net/p2p"
)

type vAddr uint8

func (a vAddr) MarshalText() ([]byte, error) { return []byte{'a' + byte(a)}, nil }
func (a vAddr) String() string               { return string([]byte{'a' + byte(a)}) }

func vClone(x []byte) []byte { return append([]byte{}, x...) }

func vConcat(a, b []byte) []byte { return append(vClone(a), b...) }

type vSentM struct {
	dst  vAddr
	data []byte
}

type vInnerRec struct{ sent *[]vSentM }

func (s vInnerRec) Tell(ctx context.Context, dst vAddr, v p2p.IOVec) error {
	*s.sent = append(*s.sent, vSentM{dst: dst, data: p2p.VecBytes(nil, v)})
	return nil
}
func (s vInnerRec) Receive(ctx context.Context, fn func(p2p.Message[vAddr])) error { return nil }
func (s vInnerRec) LocalAddrs() []vAddr                                            { return []vAddr{0} }
func (s vInnerRec) MTU() int                                                       { return 100 }
func (s vInnerRec) Close() error                                                   { return nil }
func (s vInnerRec) ParseAddr(data []byte) (vAddr, error)                           { return 0, nil }
