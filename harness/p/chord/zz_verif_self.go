package chord

// Engine self-test (not a property of go-p2p): facts about Go semantics that must HOLD for all
// inputs (VH_SELFT_*) and canaries that are FALSE for some input and must be reported with a
// natively reproducing counterexample (VH_SELFF_*). Run by checks/selftest.py.

type vPair struct {
	a, b uint16
	s    []byte
}

func vMinInt(a, b int) int {
	if a < b {
		return a
	}
	return b
}

// ---- must hold
func VH_SELFT_shiftsAndConversions() bool {
	x := vU64()
	k := uint(vByte())
	ok := vAnd(uint8(x>>8) == uint8((x>>8)&0xff), true)
	ok = vAnd(ok, (k < 64) == ((x>>k)<<k|(x&((1<<k)-1)) == x) || k >= 64)
	if k >= 64 {
		ok = vAnd(ok, x>>k == 0 && x<<k == 0)
	}
	s := int8(vByte())
	ok = vAnd(ok, (s>>7 == 0) == (s >= 0))
	ok = vAnd(ok, int64(s) == int64(int16(s)))
	ok = vAnd(ok, uint64(uint8(s)) == uint64(s)&0xff)
	return ok
}

func VH_SELFT_divisionTruncates() bool {
	// 8-bit operands: symbolic-by-symbolic division at 32 bits does not finish in z3 within the cap
	a := int8(vByte())
	b := int8(vByte())
	vAssume(b != 0)
	vAssume(!(a == -128 && b == -1))
	q, r := a/b, a%b
	ok := q*b+r == a
	ok = vAnd(ok, r == 0 || (r < 0) == (a < 0))
	return ok
}

func VH_SELFT_sliceAliasing() bool {
	buf := make([]byte, 4, 8)
	v := vByte()
	a := append(buf[:2], v) // writes buf[2] in place
	ok := buf[2] == v && len(a) == 3 && cap(a) == 8
	b := append(buf[:4:4], v) // must copy
	b[0] = v + 1
	ok = vAnd(ok, buf[0] == 0 && len(b) == 5)
	var st vPair
	p := &st
	q := *p
	q.a = 7
	ok = vAnd(ok, st.a == 0)
	st.s = buf
	c := st
	c.s[1] = v
	ok = vAnd(ok, buf[1] == v)
	arr := [3]byte{1, 2, 3}
	brr := arr
	brr[0] = v
	ok = vAnd(ok, arr[0] == 1)
	n := copy(buf[1:], buf[:3])
	return vAnd(ok, n == 3)
}

func VH_SELFT_mapsAndDefer() (ret bool) {
	m := map[string]int{}
	k1, k2 := string(vBytes(1)), string(vBytes(1))
	m[k1] = 1
	m[k2] += 2
	defer func() {
		want := 3
		if k1 != k2 {
			want = 1
		}
		ret = ret && m[k1] == want
	}()
	delete(m, "zz")
	_, has := m["zz"]
	return !has && len(m) == 2-vIte(k1 == k2, 1, 0)
}

func VH_SELFT_symbolicIndex() bool {
	tab := [8]uint16{3, 1, 4, 1, 5, 9, 2, 6}
	i := int(vByte() & 7)
	x := tab[i]
	tab[i] = x + 1
	s := 0
	for _, v := range tab {
		s += int(v)
	}
	return s == 32 && vMinInt(int(x), 9) == int(x)
}

// ---- must be violated
func VH_SELFF_oddHalf() bool {
	x := vU32()
	return x/2*2 == x
}

func VH_SELFF_signedOverflow() bool {
	x := int32(vU32())
	return x+1 > x
}

func VH_SELFF_indexPanic() bool {
	tab := [5]byte{1, 2, 3, 4, 5}
	return tab[vByte()&7] > 0
}

func VH_SELFF_sliceBoundsPanic() bool {
	b := vBytes(3)
	n := int(vByte() & 3)
	return len(b[n:]) <= 3
}

func VH_SELFF_nilMapWrite() bool {
	var m map[int]int
	if vByte() == 200 {
		m[1] = 2
	}
	return true
}

func VH_SELFF_rareValue() bool {
	x := vU64()
	return x*0x9E3779B97F4A7C15 != 0x0123456789ABCDEF
}
