package p2pke

import (
	"io"

	"golang.org/x/crypto/blake2b"
)

// C03: a session is usable only after the peer proved its key for this handshake.
// C06: the handshake never regresses, never panics, is idempotent and makes progress.
// One inductive step of Session.Deliver from an arbitrary invariant-satisfying state with an
// arbitrary packet; Noise, protobuf and asn1 leaves are engine-level models, the Verifier is a
// recording stub that may answer anything.

// vRefPreSig is the harness's own statement of what is signed: XOF(len(purpose) || purpose || msg).
// (It must not call createPreSig: a defect there would then be on both sides of the comparison.)
func vRefPreSig(purpose string, data []byte) (ret [64]byte) {
	h, err := blake2b.NewXOF(64, nil)
	if err != nil {
		panic(err)
	}
	h.Write([]byte{uint8(len(purpose))})
	h.Write([]byte(purpose))
	h.Write(data)
	io.ReadFull(h, ret[:])
	return ret
}

func vFindVerify(key []byte, purpose string, data []byte) bool {
	want := vRefPreSig(purpose, data)
	found := false
	for i := range vVerifyLog {
		c := vVerifyLog[i]
		if c.ok && vEqBytes(c.key, key) && vEqBytes(c.presig, want[:]) {
			found = true
		}
	}
	return found
}

// verif: replay=none unwind=130 cover=resp-hello-accepted,init-hello-accepted,init-done-accepted,resp-done-accepted,data-accepted,rejected bounds="Session.Deliver: one step from every (role, handshake index) with an arbitrary 32-bit counter and 0..2 body bytes; Noise payload 0..3 bytes, protobuf fields and parsed keys arbitrary, Verify answers arbitrary"
func VH_C03_handshakeStep() bool {
	s := vHsSession()
	hs0 := s.hsIndex
	n0 := s.nonce
	hadKey := !s.remoteKey.IsZero()
	var key0 []byte
	if hadKey {
		key0 = vCloneB(s.remoteKey.Key.Data)
	}
	cbBefore := vCloneB(s.hs.ChannelBinding())
	nonce := vU32()
	pkt := vPacket(nonce, vBytes(2))
	isApp, _, err := s.Deliver(nil, pkt, vT(5))
	hs1 := s.hsIndex
	vAssert(hs1 >= hs0, "handshake-index-regressed")
	vAssert(s.nonce >= n0, "send-counter-decreased-a-key-counter-pair-would-be-reused")
	if err != nil {
		vCover("rejected")
		vAssert(hs1 == hs0, "state-advanced-on-error")
		if hadKey {
			vAssert(vEqBytes(s.remoteKey.Key.Data, key0), "remote-key-changed-on-error")
		} else {
			vAssert(s.remoteKey.IsZero(), "remote-key-set-on-error")
		}
		return true
	}
	if hadKey {
		vAssert(vEqBytes(s.remoteKey.Key.Data, key0), "remote-key-changed-after-being-set")
	}
	switch {
	case hs1 == hs0:
		vAssert(!isApp || hs0 >= nonceInitDone, "data-accepted-before-authentication")
	case !s.isInit && hs0 == 0 && hs1 == 1:
		vCover("init-hello-accepted")
		ts := s.initHelloTime.Marshal()
		vAssert(!s.remoteKey.IsZero() && vFindVerify(s.remoteKey.Key.Data, purposeTimestamp, ts), "init-hello-accepted-without-valid-signature-under-reported-key")
		vAssert(s.msgCache[1] != nil && s.cipherIn != nil && s.cipherOut != nil, "responder-state-incomplete")
	case s.isInit && hs0 == 0 && hs1 == 2:
		vCover("resp-hello-accepted")
		vAssert(!s.remoteKey.IsZero() && vFindVerify(s.remoteKey.Key.Data, purposeChannelBinding, cbBefore), "resp-hello-accepted-without-signature-over-this-handshakes-transcript")
		vAssert(s.msgCache[2] != nil && s.cipherIn != nil && s.cipherOut != nil, "initiator-state-incomplete")
	case !s.isInit && hs0 == 1 && hs1 == 3:
		vCover("init-done-accepted")
		vAssert(vFindVerify(key0, purposeChannelBinding, cbBefore), "init-done-accepted-without-signature-over-this-handshakes-transcript")
		vAssert(s.msgCache[3] != nil, "responder-state-incomplete")
	case s.isInit && hs0 == 2 && hs1 == 4:
		vCover("resp-done-accepted")
		ok := false
		for i := range vCipherLog {
			c := vCipherLog[i]
			if c.dec && c.ok && c.n == nonceRespDone {
				ok = true
			}
		}
		vAssert(ok, "resp-done-accepted-without-authenticated-decrypt")
	case hs1 == 8 && isApp && hs0 >= nonceInitDone:
		vCover("data-accepted")
	default:
		vAssert(false, "illegal-handshake-transition")
	}
	// whoever can send has a post-handshake counter (C02/C06)
	vAssert(!s.canSend() || s.nonce >= noncePostHandshake, "sender-with-handshake-range-counter")
	return true
}

// verif: replay=none cover=has-message,no-message bounds="Handshake(): from every (role, handshake index): two calls return equal bytes and change nothing; never panics"
func VH_C06_handshakeIdempotent() bool {
	s := vHsSession()
	hs0, n0 := s.hsIndex, s.nonce
	a := s.Handshake([]byte{9})
	b := s.Handshake([]byte{9})
	// until the handshake is over from this side's point of view (index >= 4) there is a current
	// message to (re)transmit, whatever else the session has done meanwhile (e.g. sent data)
	if hs0 < 4 && !(!s.isInit && hs0 == 0) {
		vCover("has-message")
		vAssert(len(a) > 1+4, "no-handshake-message-offered-although-handshake-incomplete")
	} else {
		vCover("no-message")
		vAssert(len(a) == 0, "handshake-message-offered-after-completion")
	}
	return vEqBytes(a, b) && s.hsIndex == hs0 && s.nonce == n0
}

// verif: replay=none unwind=130 cover=init-0,init-2,resp-0,resp-1,finished bounds="progress: from each non-final (role, index) the next genuine message, when every stub outcome is 'valid' (no error returned), advances exactly one step and yields the next handshake message to send; old/duplicate/reflected handshake messages leave the state unchanged and are answered with the cached current message"
func VH_C06_progressAndDuplicates() bool {
	s := vHsSession()
	hs0, n0 := s.hsIndex, s.nonce
	cur := s.Handshake(nil)
	nonce := uint32(vInt(0, 3))
	isApp, out, err := s.Deliver(nil, vPacket(nonce, vBytes(2)), vT(5))
	vAssert(!isApp, "handshake-packet-delivered-as-data")
	var next uint8
	var expect uint32
	switch {
	case hs0 >= 3 && !(s.isInit && hs0 == 2):
		// handshake finished from this side's view (or responder waiting only for data): every handshake packet is a duplicate
		next, expect = hs0, 99
		vCover("finished")
	case s.isInit && hs0 == 0:
		next, expect = 2, nonceRespHello
		vCover("init-0")
	case s.isInit && hs0 == 2:
		next, expect = 4, nonceRespDone
		vCover("init-2")
	case !s.isInit && hs0 == 0:
		next, expect = 1, nonceInitHello
		vCover("resp-0")
	default:
		next, expect = 3, nonceInitDone
		vCover("resp-1")
	}
	if nonce == expect {
		if err == nil {
			vAssert(s.hsIndex == next, "genuine-next-message-did-not-advance")
			if next < 4 {
				vAssert(len(out) > 4, "no-handshake-message-to-send-after-advancing")
			}
		} else {
			vAssert(s.hsIndex == hs0, "failed-message-changed-state")
		}
		return true
	}
	// not the expected message: duplicates, old or reflected messages never change the state
	vAssert(s.hsIndex == hs0 && s.nonce == n0, "unexpected-handshake-message-changed-state")
	if err == nil {
		vAssert(vEqBytes(out, cur), "duplicate-not-answered-with-current-message")
	}
	return true
}

// verif: replay=none unwind=130 cover=completed-by-data bounds="a session made ready by a data packet (RespDone lost) can send, and its first send uses a counter >= 16 (disjoint from the handshake's counters)"
func VH_C06_completedByDataCanSend() bool {
	s := vHsSession()
	vAssume(!s.IsReady())
	nonce := vU32()
	vAssume(nonce >= 16 && nonce < 80)
	isApp, _, _ := s.Deliver(nil, vPacket(nonce, vBytes(1)), vT(5))
	if !isApp || !s.IsReady() {
		return true
	}
	vCover("completed-by-data")
	n0 := s.nonce
	out, err := s.Send(nil, []byte{1}, vT(5))
	vAssert(err == nil && len(out) == 4+1+16, "ready-session-cannot-send")
	vAssert(n0 >= noncePostHandshake, "first-data-counter-collides-with-handshake-counters")
	return true
}
