package p2pke

// C03: a session is usable only after the peer proved its key for this handshake.
// C06: the handshake never regresses, never panics, is idempotent and makes progress.
// One inductive step of Session.Deliver from an arbitrary invariant-satisfying state with an
// arbitrary packet; Noise, protobuf and asn1 leaves are engine-level models, the Verifier is a
// recording stub that may answer anything.

// verif: replay=none unwind=130 cover=resp-hello-accepted,init-hello-accepted,init-done-accepted,resp-done-accepted,data-accepted,rejected bounds="Session.Deliver: one step from every (role, handshake index) with an arbitrary 32-bit counter and 0..2 body bytes; Noise payload 0..3 bytes, protobuf fields and parsed keys arbitrary, Verify answers arbitrary"
func VH_C03_handshakeStep() bool { return vHandshakeStep() }

// verif: replay=none cover=has-message,no-message bounds="Handshake(): from every (role, handshake index): two calls return equal bytes and change nothing; never panics"
func VH_C06_handshakeIdempotent() bool {
	s := vHsSession()
	hs0, n0 := s.hsIndex, s.nonce
	a := s.Handshake([]byte{9})
	b := s.Handshake([]byte{9})
	// until the handshake is over from this side's point of view (index >= 4) there is a current
	// message to (re)transmit, whatever else the session has done meanwhile (e.g. sent data)
	if hs0 < 4 && !(!s.isInit && hs0 == 0) {
		vCover("has-message")
		vAssert(len(a) > 1+4, "no-handshake-message-offered-although-handshake-incomplete")
	} else {
		vCover("no-message")
		vAssert(len(a) == 0, "handshake-message-offered-after-completion")
	}
	return vEqBytes(a, b) && s.hsIndex == hs0 && s.nonce == n0
}

// verif: replay=none unwind=130 cover=init-0,init-2,resp-0,resp-1,finished bounds="progress: from each non-final (role, index) the next genuine message, when every stub outcome is 'valid' (no error returned), advances exactly one step and yields the next handshake message to send; old/duplicate/reflected handshake messages leave the state unchanged and are answered with the cached current message"
func VH_C06_progressAndDuplicates() bool {
	s := vHsSession()
	hs0, n0 := s.hsIndex, s.nonce
	cur := s.Handshake(nil)
	nonce := uint32(vInt(0, 3))
	isApp, out, err := s.Deliver(nil, vPacket(nonce, vBytes(2)), vT(5))
	vAssert(!isApp, "handshake-packet-delivered-as-data")
	var next uint8
	var expect uint32
	switch {
	case hs0 >= 3 && !(s.isInit && hs0 == 2):
		// handshake finished from this side's view (or responder waiting only for data): every handshake packet is a duplicate
		next, expect = hs0, 99
		vCover("finished")
	case s.isInit && hs0 == 0:
		next, expect = 2, nonceRespHello
		vCover("init-0")
	case s.isInit && hs0 == 2:
		next, expect = 4, nonceRespDone
		vCover("init-2")
	case !s.isInit && hs0 == 0:
		next, expect = 1, nonceInitHello
		vCover("resp-0")
	default:
		next, expect = 3, nonceInitDone
		vCover("resp-1")
	}
	if nonce == expect {
		if err == nil {
			vAssert(s.hsIndex == next, "genuine-next-message-did-not-advance")
			if next < 4 {
				vAssert(len(out) > 4, "no-handshake-message-to-send-after-advancing")
			}
		} else {
			vAssert(s.hsIndex == hs0, "failed-message-changed-state")
		}
		return true
	}
	// not the expected message: duplicates, old or reflected messages never change the state
	vAssert(s.hsIndex == hs0 && s.nonce == n0, "unexpected-handshake-message-changed-state")
	if err == nil {
		vAssert(vEqBytes(out, cur), "duplicate-not-answered-with-current-message")
	}
	return true
}

// verif: replay=none unwind=130 cover=completed-by-data bounds="a session made ready by a data packet (RespDone lost) can send, and its first send uses a counter >= 16 (disjoint from the handshake's counters)"
func VH_C06_completedByDataCanSend() bool {
	s := vHsSession()
	vAssume(!s.IsReady())
	nonce := vU32()
	vAssume(nonce >= 16 && nonce < 80)
	isApp, _, _ := s.Deliver(nil, vPacket(nonce, vBytes(1)), vT(5))
	if !isApp || !s.IsReady() {
		return true
	}
	vCover("completed-by-data")
	n0 := s.nonce
	out, err := s.Send(nil, []byte{1}, vT(5))
	vAssert(err == nil && len(out) == 4+1+16, "ready-session-cannot-send")
	vAssert(n0 >= noncePostHandshake, "first-data-counter-collides-with-handshake-counters")
	return true
}
