package p2pke

import (
	"time"
)

// C07 (safety lemmas the liveness statement presupposes; the timed convergence itself needs real
// timers and two parties and is outside what the encoding reaches).

// verif: replay=none unwind=130 cover=fresh-traffic bounds="keep-alive: any established channel (quick: only the current slot occupied) whose current session delivers authenticated data at some instant; expiry evaluated at any later instant within KeepAliveTimeout: the current session is kept (symbolic non-decreasing clock)"
func VH_C07_keepAlive() bool {
	e := vChannel()
	c := e.c
	s1 := c.sessions[1].Session
	vAssume(s1 != nil)
	if !vThorough() {
		vAssume(c.sessions[0].Session == nil && c.sessions[2].Session == nil)
	}
	t0 := time.Now()
	nonce := vU32()
	vAssume(nonce >= 16 && nonce < 80)
	out, _ := c.Deliver(nil, vPacket(nonce, vBytes(1)))
	fromCurrent := false
	for i := range vCipherLog {
		cc := vCipherLog[i]
		if cc.dec && cc.ok && cc.id == s1.cipherIn.(vCipher).id {
			fromCurrent = true
		}
	}
	if out == nil || !fromCurrent || c.sessions[1].Session != s1 {
		return true
	}
	vCover("fresh-traffic")
	t2 := time.Now()
	vAssume(t2.Sub(t0) <= c.params.KeepAliveTimeout)
	c.expireSessions(t2)
	vAssert(c.sessions[1].Session == s1, "session-with-fresh-traffic-expired")
	return true
}

// verif: replay=none cover=a-keeps,b-keeps bounds="simultaneous initiation tie-break: for any two distinct session ids (2 symbolic leading bytes) exactly one side keeps the session it initiated"
func VH_C07_tieBreak() bool {
	var a, b [32]byte
	a[0], a[1] = vByte(), vByte()
	b[0], b[1] = vByte(), vByte()
	vAssume(a != b)
	// side A initiated a, then sees b; side B initiated b, then sees a
	eA, eB := vEmptyChannel(), vEmptyChannel()
	ownA, ownB := vMkSession(true, 0, 0, 41), vMkSession(true, 0, 0, 42)
	eA.c.sessions[2] = sessionEntry{ID: a, Session: ownA}
	eB.c.sessions[2] = sessionEntry{ID: b, Session: ownB}
	keptA := eA.c.proposeNewSession(b, vMkSession(false, 1, 7, 43))
	keptB := eB.c.proposeNewSession(a, vMkSession(false, 1, 7, 44))
	aKeeps := keptA == ownA && eA.c.sessions[2].Session == ownA
	bKeeps := keptB == ownB && eB.c.sessions[2].Session == ownB
	if aKeeps {
		vCover("a-keeps")
	}
	if bKeeps {
		vCover("b-keeps")
	}
	return aKeeps != bKeeps
}

// verif: replay=none cover=current-expired,nothing-expired bounds="expireSessions at any instant from any invariant state with symbolic session expiry times and last-received time: slot invariant preserved, the ready signal is re-armed when the current slot is vacated, no close of a closed channel"
func VH_C07_expirePreservesInvariant() bool {
	e := vChannel()
	c := e.c
	for i := 0; i < 3; i++ {
		if s := c.sessions[i].Session; s != nil {
			s.expiresAt = time.Unix(0, int64(vByte())+1)
		}
	}
	c.lastReceived = time.Unix(0, int64(vByte())+1)
	c.params.KeepAliveTimeout = time.Duration(vByte())
	if vBool() {
		close(c.ready) // the ready signal may already have fired
	}
	s1 := c.sessions[1].Session
	now := time.Unix(0, int64(vByte())+1)
	c.expireSessions(now)
	vCheckJ(e)
	// a session past its RejectAfter time is not left as the current (sending) or pending session,
	// otherwise Send keeps getting a session that refuses to encrypt and no new handshake starts.
	// (The previous slot may briefly hold the session that just expired: it only receives, and
	// Session.Deliver checks the expiry itself; demanding more would exceed the property.)
	for i := 1; i < 3; i++ {
		if s := c.sessions[i].Session; s != nil {
			vAssert(!s.expiresAt.Before(now), "session-past-its-reject-time-kept-as-current-or-pending")
		}
	}
	if s1 != nil && c.sessions[1].Session == nil {
		vCover("current-expired")
		vAssert(c.sessions[0].Session == s1, "expired-current-session-not-kept-as-previous")
		armed := true
		select {
		case <-c.ready:
			armed = false
		default:
		}
		vAssert(armed, "ready-signal-not-re-armed-after-current-session-expired")
	} else {
		vCover("nothing-expired")
	}
	return true
}

// ---- retransmission machinery (timers are modelled: time.AfterFunc captures the callback,
// vFireTimer runs it as the runtime would on expiry, vTimerLastReset observes the last Reset)

// verif: replay=none cover=rearmed,one-shot bounds="p2pke.Timer: a pending timer that fires runs its callback once; a callback that re-arms its own timer leaves it pending and it fires again; a stopped timer does nothing"
func VH_C07_timerRearmFromCallback() bool {
	calls := 0
	rearm := vBool()
	var t *Timer
	t = newTimer(func() {
		calls++
		if rearm && calls == 1 {
			t.Reset(5)
		}
	})
	vAssert(!t.IsPending(), "new-timer-is-pending")
	t.Reset(1)
	vAssert(t.IsPending(), "reset-timer-not-pending")
	vFireTimer(t.timer)
	vAssert(calls == 1, "pending-timer-fired-without-running-its-callback")
	if rearm {
		vCover("rearmed")
		vAssert(t.IsPending(), "timer-re-armed-from-its-own-callback-is-not-pending")
		vFireTimer(t.timer)
		vAssert(calls == 2, "re-armed-timer-did-not-run-again")
	} else {
		vCover("one-shot")
		vAssert(!t.IsPending(), "timer-still-pending-after-firing")
	}
	t.Reset(1)
	t.Stop()
	vFireTimer(t.timer)
	vAssert(calls <= 2 && !t.IsPending(), "stopped-timer-ran")
	return true
}

// verif: replay=none time=concrete cover=armed,unarmed bounds="Channel.getOrInit (the core of Send/WaitReady) on any channel with neither a current nor a pending session: an immediate handshake is scheduled (rekey timer reset to 0) whether or not the periodic rekey timer is already armed"
func VH_C07_sendWithoutSessionStartsHandshakeNow() bool {
	e := vChannel()
	c := e.c
	vAssume(c.sessions[1].Session == nil && c.sessions[2].Session == nil)
	c.rekeyTimer = &Timer{timer: new(time.Timer)}
	if vBool() {
		c.rekeyTimer.Reset(c.params.RekeyAfterTime) // the periodic rekey of an earlier session is still armed
		vCover("armed")
	} else {
		vCover("unarmed")
	}
	_, err := c.getOrInit(vCancelledCtx())
	vAssert(err != nil, "getOrInit-succeeded-without-a-session")
	vAssert(vTimerLastReset(c.rekeyTimer.timer) == 0, "no-immediate-handshake-scheduled-although-no-session-exists")
	return true
}

// verif: replay=none time=concrete cover=sent,idle bounds="Channel.onHandshake from any invariant state: every not-ready session's current handshake message is sent, and the handshake timer is re-armed with the backoff exactly when something was sent"
func VH_C07_handshakeRetransmission() bool {
	e := vChannel()
	c := e.c
	c.handshakeTimer = &Timer{timer: new(time.Timer)}
	want := 0
	for i := 0; i < 3; i++ {
		if s := c.sessions[i].Session; s != nil && !s.IsReady() && len(s.Handshake(nil)) > 0 {
			want++
		}
	}
	c.onHandshake()
	vAssert(len(e.sent) == want, "pending-handshake-message-not-retransmitted")
	if want > 0 {
		vCover("sent")
		vAssert(c.handshakeTimer.IsPending() && vTimerLastReset(c.handshakeTimer.timer) == c.params.HandshakeBackoff, "handshake-timer-not-re-armed-after-sending")
	} else {
		vCover("idle")
	}
	return true
}
