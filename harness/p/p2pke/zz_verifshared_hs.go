package p2pke

import (
	"io"

	"github.com/flynn/noise"
	"go.brendoncarroll.net/p2p/f/x509"
	"go.brendoncarroll.net/p2p/f/x509/oids"
	"go.brendoncarroll.net/tai64"
	"golang.org/x/crypto/blake2b"
	"golang.zx2c4.com/wireguard/replay"
)

// ---- stubs for the handshake harnesses (the Noise/protobuf/asn1 leaves are engine-level models)

// vAlgo is the algorithm the harness registry knows; the x509.ParsePublicKey model hands out keys with it.
var vAlgo = oids.New(1, 2, 3)

type vVerifyCall struct {
	key    []byte
	presig []byte
	sig    []byte
	ok     bool
}

var vVerifyLog []vVerifyCall
var vCipherLog []vCipherCall

// vVerifier: Verify returns any bool and records what it was asked.
type vVerifier struct{ key []byte }

func (v vVerifier) Verify(msg, sig []byte) bool {
	ok := vBool()
	vVerifyLog = append(vVerifyLog, vVerifyCall{key: vCloneB(v.key), presig: vCloneB(msg), sig: vCloneB(sig), ok: ok})
	return ok
}

type vSigner struct{ key []byte }

func (s vSigner) Sign(out, msg []byte) ([]byte, error) { return append(out, 0x51, 0x9), nil }
func (s vSigner) Verifier() x509.Verifier              { return vVerifier{key: s.key} }

func vRegistry() x509.Registry {
	return x509.Registry{
		vAlgo: x509.Codec{
			ParsePublic:    func(data []byte) (x509.Verifier, error) { return vVerifier{key: vCloneB(data)}, nil },
			MarshalPublic:  func(out []byte, v x509.Verifier) []byte { return append(out, v.(vVerifier).key...) },
			ParsePrivate:   func(data []byte) (x509.Signer, error) { return vSigner{key: vCloneB(data)}, nil },
			MarshalPrivate: func(out []byte, s x509.Signer) []byte { return append(out, s.(vSigner).key...) },
		},
	}
}

// vCipherFor is called by the engine's model of (*noise.CipherState).Cipher.
func vCipherFor(tag int) noise.Cipher { return vCipher{log: &vCipherLog, maxPT: 2, id: tag} }

func vLocalKey() x509.PrivateKey { return x509.PrivateKey{Algorithm: vAlgo, Data: []byte{0x11}} }

// vHsSession builds a session in an arbitrary handshake state satisfying the representation
// invariant: the cached message for the current index exists, ciphers exist once the hello
// exchange is done, the remote key is set exactly when a hello has been accepted.
func vHsSession() *Session {
	reg := vRegistry()
	s := &Session{
		registry:   reg,
		privateKey: privateKey{Registry: reg, Key: vLocalKey()},
		isInit:     vBool(),
		expiresAt:  vT(1000),
		hs:         new(noise.HandshakeState),
		rp:         &replay.Filter{},
	}
	if s.isInit {
		s.hsIndex = [4]uint8{0, 2, 4, 8}[vInt(0, 3)]
		s.msgCache[0] = []byte{0, 0, 0, 0, 0xA0}
		s.initHelloTime = tai64.TAI64N{Seconds: 5}
		s.hs.WriteMessage(nil, nil) // the initiator has written message 1
		if s.hsIndex >= 2 {
			s.hs.ReadMessage(nil, nil)
			s.msgCache[2] = []byte{0, 0, 0, 2, 0xA2}
		}
	} else {
		s.hsIndex = [4]uint8{0, 1, 3, 8}[vInt(0, 3)]
		if s.hsIndex >= 1 {
			s.hs.ReadMessage(nil, nil)
			s.hs.WriteMessage(nil, nil)
			s.msgCache[1] = []byte{0, 0, 0, 1, 0xA1}
			s.initHelloTime = tai64.TAI64N{Seconds: 5}
		}
		if s.hsIndex >= 3 {
			s.msgCache[3] = []byte{0, 0, 0, 3, 0xA3}
		}
	}
	if (s.isInit && s.hsIndex >= 2) || (!s.isInit && s.hsIndex >= 1) {
		s.cipherIn = vCipher{log: &vCipherLog, maxPT: 2, id: 1}
		s.cipherOut = vCipher{log: &vCipherLog, maxPT: 2, id: 2}
		s.remoteKey = publicKey{Registry: reg, Key: x509.PublicKey{Algorithm: vAlgo, Data: []byte{vByte()}}}
	}
	if s.canSend() {
		s.nonce = noncePostHandshake + uint64(vByte())
	}
	vVerifyLog = nil
	vCipherLog = nil
	return s
}

// vRefPreSig is the harness's own statement of what is signed: XOF(len(purpose) || purpose || msg).
// (It must not call createPreSig: a defect there would then be on both sides of the comparison.)
func vRefPreSig(purpose string, data []byte) (ret [64]byte) {
	h, err := blake2b.NewXOF(64, nil)
	if err != nil {
		panic(err)
	}
	h.Write([]byte{uint8(len(purpose))})
	h.Write([]byte(purpose))
	h.Write(data)
	io.ReadFull(h, ret[:])
	return ret
}

func vFindVerify(key []byte, purpose string, data []byte) bool {
	want := vRefPreSig(purpose, data)
	found := false
	for i := range vVerifyLog {
		c := vVerifyLog[i]
		if c.ok && vEqBytes(c.key, key) && vEqBytes(c.presig, want[:]) {
			found = true
		}
	}
	return found
}

// vHandshakeStep: one Session.Deliver step from an arbitrary handshake state (shared by C03 and C02).
func vHandshakeStep() bool {
	s := vHsSession()
	hs0 := s.hsIndex
	n0 := s.nonce
	hadKey := !s.remoteKey.IsZero()
	var key0 []byte
	if hadKey {
		key0 = vCloneB(s.remoteKey.Key.Data)
	}
	cbBefore := vCloneB(s.hs.ChannelBinding())
	nonce := vU32()
	pkt := vPacket(nonce, vBytes(2))
	isApp, _, err := s.Deliver(nil, pkt, vT(5))
	hs1 := s.hsIndex
	vAssert(hs1 >= hs0, "handshake-index-regressed")
	vAssert(s.nonce >= n0, "send-counter-decreased-a-key-counter-pair-would-be-reused")
	if err != nil {
		vCover("rejected")
		vAssert(hs1 == hs0, "state-advanced-on-error")
		if hadKey {
			vAssert(vEqBytes(s.remoteKey.Key.Data, key0), "remote-key-changed-on-error")
		} else {
			vAssert(s.remoteKey.IsZero(), "remote-key-set-on-error")
		}
		return true
	}
	if hadKey {
		vAssert(vEqBytes(s.remoteKey.Key.Data, key0), "remote-key-changed-after-being-set")
	}
	switch {
	case hs1 == hs0:
		vAssert(!isApp || hs0 >= nonceInitDone, "data-accepted-before-authentication")
	case !s.isInit && hs0 == 0 && hs1 == 1:
		vCover("init-hello-accepted")
		ts := s.initHelloTime.Marshal()
		vAssert(!s.remoteKey.IsZero() && vFindVerify(s.remoteKey.Key.Data, purposeTimestamp, ts), "init-hello-accepted-without-valid-signature-under-reported-key")
		vAssert(s.msgCache[1] != nil && s.cipherIn != nil && s.cipherOut != nil, "responder-state-incomplete")
	case s.isInit && hs0 == 0 && hs1 == 2:
		vCover("resp-hello-accepted")
		vAssert(!s.remoteKey.IsZero() && vFindVerify(s.remoteKey.Key.Data, purposeChannelBinding, cbBefore), "resp-hello-accepted-without-signature-over-this-handshakes-transcript")
		vAssert(s.msgCache[2] != nil && s.cipherIn != nil && s.cipherOut != nil, "initiator-state-incomplete")
	case !s.isInit && hs0 == 1 && hs1 == 3:
		vCover("init-done-accepted")
		vAssert(vFindVerify(key0, purposeChannelBinding, cbBefore), "init-done-accepted-without-signature-over-this-handshakes-transcript")
		vAssert(s.msgCache[3] != nil, "responder-state-incomplete")
	case s.isInit && hs0 == 2 && hs1 == 4:
		vCover("resp-done-accepted")
		ok := false
		for i := range vCipherLog {
			c := vCipherLog[i]
			if c.dec && c.ok && c.n == nonceRespDone {
				ok = true
			}
		}
		vAssert(ok, "resp-done-accepted-without-authenticated-decrypt")
	case hs1 == 8 && isApp && hs0 >= nonceInitDone:
		vCover("data-accepted")
	default:
		vAssert(false, "illegal-handshake-transition")
	}
	// whoever can send has a post-handshake counter (C02/C06)
	vAssert(!s.canSend() || s.nonce >= noncePostHandshake, "sender-with-handshake-range-counter")
	return true
}
