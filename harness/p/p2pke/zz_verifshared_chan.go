package p2pke

import (
	"time"

	"github.com/flynn/noise"
	"go.brendoncarroll.net/p2p/f/x509"
	"go.brendoncarroll.net/tai64"
	"golang.zx2c4.com/wireguard/replay"
)

// ---- Channel in an arbitrary state satisfying the documented slot invariant J:
//   slots 0 and 1 are nil or ready sessions whose remote key is the channel's remote key,
//   slot 2 is nil or a not-ready session, the channel's remote key is zero or accepted.

type vChanEnv struct {
	c        *Channel
	sent     [][]byte
	acceptM  byte // acceptance predicate: key byte & acceptM == acceptV
	acceptV  byte
	asked    int
	sessions [3]*Session
}

func (e *vChanEnv) accept(k *x509.PublicKey) bool {
	e.asked++
	return len(k.Data) == 1 && k.Data[0]&e.acceptM == e.acceptV
}

func vAcceptPure(e *vChanEnv, data []byte) bool {
	return len(data) == 1 && data[0]&e.acceptM == e.acceptV
}

// vMkSession builds a session with the given role/index and remote key byte.
func vMkSession(isInit bool, idx uint8, key byte, cid int) *Session {
	reg := vRegistry()
	s := &Session{
		registry:   reg,
		privateKey: privateKey{Registry: reg, Key: vLocalKey()},
		isInit:     isInit,
		hsIndex:    idx,
		expiresAt:  vT(1 << 62),
		hs:         new(noise.HandshakeState),
		rp:         &replay.Filter{},
	}
	if isInit {
		s.msgCache[0] = []byte{0, 0, 0, 0, byte(cid)}
		s.initHelloTime = tai64.TAI64N{Seconds: 5}
		s.hs.WriteMessage(nil, nil)
		if idx >= 2 {
			s.hs.ReadMessage(nil, nil)
			s.msgCache[2] = []byte{0, 0, 0, 2, byte(cid)}
		}
	} else {
		if idx >= 1 {
			s.hs.ReadMessage(nil, nil)
			s.hs.WriteMessage(nil, nil)
			s.msgCache[1] = []byte{0, 0, 0, 1, byte(cid)}
			s.initHelloTime = tai64.TAI64N{Seconds: 5}
		}
		if idx >= 3 {
			s.msgCache[3] = []byte{0, 0, 0, 3, byte(cid)}
		}
	}
	if (isInit && idx >= 2) || (!isInit && idx >= 1) {
		s.cipherIn = vCipher{log: &vCipherLog, maxPT: 1, id: cid}
		s.cipherOut = vCipher{log: &vCipherLog, maxPT: 1, id: cid + 100}
		s.remoteKey = publicKey{Registry: reg, Key: x509.PublicKey{Algorithm: vAlgo, Data: []byte{key}}}
	}
	if s.canSend() {
		s.nonce = noncePostHandshake
	}
	return s
}

func vReadySession(key byte, cid int) *Session {
	hi := 0
	if vThorough() {
		hi = 1 // also the "completed by data" index 8
	}
	if vBool() {
		return vMkSession(true, [2]uint8{4, 8}[vInt(0, hi)], key, cid)
	}
	return vMkSession(false, [2]uint8{3, 8}[vInt(0, hi)], key, cid)
}

func vPendingSession(key byte, cid int) *Session {
	if vBool() {
		return vMkSession(true, [2]uint8{0, 2}[vInt(0, 1)], key, cid)
	}
	return vMkSession(false, 1, key, cid)
}

// vChannel builds a channel in an arbitrary J-state. established: whether a remote key is set.
func vChannel() *vChanEnv {
	e := &vChanEnv{acceptM: vByte(), acceptV: vByte()}
	c := &Channel{
		params: ChannelConfig{
			Registry:         vRegistry(),
			PrivateKey:       vLocalKey(),
			Send:             func(x []byte) { e.sent = append(e.sent, vCloneB(x)) },
			AcceptKey:        e.accept,
			KeepAliveTimeout: KeepAliveTimeout,
			HandshakeBackoff: HandshakeBackoff,
			RekeyAfterTime:   RekeyAfterTime,
			RejectAfterTime:  RejectAfterTime,
		},
		privateKey:     privateKey{Registry: vRegistry(), Key: vLocalKey()},
		ready:          make(chan struct{}),
		rekeyTimer:     &Timer{},
		handshakeTimer: &Timer{},
	}
	e.c = c
	vVerifyLog = nil
	vCipherLog = nil
	established := vBool()
	rk := vByte()
	if established {
		vAssume(vAcceptPure(e, []byte{rk}))
		c.remoteKey = x509.PublicKey{Algorithm: vAlgo, Data: []byte{rk}}
		c.lastReceived = time.Unix(0, 1)
		if vBool() {
			e.sessions[0] = vReadySession(rk, 10)
			c.sessions[0] = sessionEntry{ID: [32]byte{1}, Session: e.sessions[0]}
		}
		if vBool() {
			e.sessions[1] = vReadySession(rk, 20)
			c.sessions[1] = sessionEntry{ID: [32]byte{2}, Session: e.sessions[1]}
		}
	}
	if vBool() {
		// the pending session may be with any key: that is what the step must police
		e.sessions[2] = vPendingSession(vByte(), 30)
		c.sessions[2] = sessionEntry{ID: [32]byte{3}, Session: e.sessions[2]}
	}
	e.asked = 0
	return e
}

// vEmptyChannel is a channel with no sessions and no remote key.
func vEmptyChannel() *vChanEnv {
	e := &vChanEnv{}
	e.c = &Channel{
		params: ChannelConfig{
			Registry: vRegistry(), PrivateKey: vLocalKey(),
			Send:      func(x []byte) { e.sent = append(e.sent, vCloneB(x)) },
			AcceptKey: e.accept, KeepAliveTimeout: KeepAliveTimeout, HandshakeBackoff: HandshakeBackoff,
			RekeyAfterTime: RekeyAfterTime, RejectAfterTime: RejectAfterTime,
		},
		privateKey:     privateKey{Registry: vRegistry(), Key: vLocalKey()},
		ready:          make(chan struct{}),
		rekeyTimer:     &Timer{},
		handshakeTimer: &Timer{},
	}
	return e
}

// vCheckJ checks the slot invariant and key discipline after a step.
func vCheckJ(e *vChanEnv) {
	c := e.c
	for i := 0; i < 2; i++ {
		s := c.sessions[i].Session
		if s == nil {
			continue
		}
		vAssert(s.IsReady(), "established-slot-holds-unready-session")
		vAssert(!c.remoteKey.IsZero(), "established-session-without-channel-key")
		vAssert(vEqBytes(s.remoteKey.Key.Data, c.remoteKey.Data), "established-session-with-a-different-key")
	}
	if s := c.sessions[2].Session; s != nil {
		vAssert(!s.IsReady(), "ready-session-left-in-pending-slot")
	}
	if !c.remoteKey.IsZero() {
		vAssert(vAcceptPure(e, c.remoteKey.Data), "channel-bound-to-a-key-the-predicate-rejects")
	}
}

// vChannelStep: one Channel.Deliver step from an arbitrary invariant state (shared by C05 and C02).
func vChannelStep() bool {
	e := vChannel()
	c := e.c
	hadKey := !c.remoteKey.IsZero()
	var key0 []byte
	if hadKey {
		key0 = vCloneB(c.remoteKey.Data)
	}
	s0, s1 := c.sessions[0].Session, c.sessions[1].Session
	nonce := vU32()
	vAssume(nonce < 80) // the replay window's sliding loop is covered by C02; keep one block here
	pkt := vPacket(nonce, vBytes(2))
	out, _ := c.Deliver(nil, pkt)
	vCheckJ(e)
	if hadKey {
		vAssert(!c.remoteKey.IsZero() && vEqBytes(c.remoteKey.Data, key0), "channel-key-changed-after-establishment")
	}
	if c.sessions[1].Session != s1 {
		vCover("promoted")
		// a promotion moves the old current session to previous and installs a session with the channel key
		vAssert(c.sessions[0].Session == s1, "promotion-lost-the-current-session")
	} else {
		vAssert(c.sessions[0].Session == s0, "established-sessions-disturbed-without-promotion")
	}
	if out != nil {
		vCover("app-data")
		// the decrypting session must now be an established one (slot 0/1)
		okSrc := false
		for i := range vCipherLog {
			cc := vCipherLog[i]
			if !cc.dec || !cc.ok {
				continue
			}
			for j := 0; j < 2; j++ {
				if s := c.sessions[j].Session; s != nil && s.cipherIn.(vCipher).id == cc.id {
					okSrc = true
				}
			}
		}
		vAssert(okSrc, "app-data-from-a-session-that-is-not-established")
	}
	if s := c.sessions[2].Session; s != nil && s != e.sessions[2] {
		vCover("new-responder")
		vAssert(!s.isInit, "new-pending-session-is-not-a-responder")
		vAssert(len(e.sent) == 1 && IsRespHello(e.sent[0]), "no-resp-hello-sent-for-new-responder-session")
		if hadKey && s1 != nil {
			vCover("restart-while-established")
		}
		if hadKey {
			vAssert(vEqBytes(s.remoteKey.Key.Data, key0), "responder-session-created-for-a-different-key")
		} else {
			vAssert(vAcceptPure(e, s.remoteKey.Key.Data), "responder-session-created-for-a-rejected-key")
		}
	}
	if e.sessions[2] != nil && c.sessions[2].Session == nil && c.sessions[1].Session == s1 {
		vCover("rejected-key")
	}
	return true
}

type vCtxC struct {
	done chan struct{}
	err  error
}

func (c vCtxC) Deadline() (time.Time, bool) { return time.Time{}, false }
func (c vCtxC) Done() <-chan struct{}       { return c.done }
func (c vCtxC) Err() error                  { return c.err }
func (c vCtxC) Value(key any) any           { return nil }

func vCancelledCtx() vCtxC {
	d := make(chan struct{})
	close(d)
	return vCtxC{done: d, err: vErrDecrypt}
}
