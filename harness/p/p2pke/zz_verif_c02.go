package p2pke

import (
	"encoding/binary"
	"time"

	"go.brendoncarroll.net/p2p"
)

// C02: the secure channel delivers only authentic peer plaintexts, at most once
// (relative to the AEAD contract of the recording cipher stub).

// verif: unwind=130 cover=delivered,dropped bounds="Session.Deliver, data branch: arbitrary role/handshake index/send counter, any packet with counter >= 4 and 0..3 body bytes, AEAD outcome arbitrary (fail or any plaintext of 0..2 bytes)"
func VH_C02_deliverOnlyAuthentic() bool {
	var log []vCipherCall
	s := vDataSession(&log, 2)
	nonce := vU32()
	vAssume(nonce >= 4)
	body := vBytes(3)
	pkt := vPacket(nonce, body)
	hs0, n0 := s.hsIndex, s.nonce
	prefix := vBytes(1)
	isApp, out, err := s.Deliver(vCloneB(prefix), pkt, vT(5))
	if !isApp {
		vCover("dropped")
		// nothing is handed to the application; the handshake state and send counter are untouched
		vAssert(out == nil || err != nil || len(out) == 0, "bytes-returned-without-app-flag")
		vAssert(s.hsIndex == hs0 && s.nonce == n0, "state-changed-by-undelivered-packet")
		return true
	}
	vCover("delivered")
	vAssert(err == nil, "app-data-with-error")
	vAssert(hs0 >= nonceInitDone, "app-data-accepted-before-peer-authenticated")
	vAssert(len(log) == 1 && log[0].dec && log[0].ok, "app-data-without-exactly-one-successful-decrypt")
	c := log[0]
	vAssert(c.n == uint64(nonce), "decrypt-counter-differs-from-header")
	vAssert(len(c.ad) == 4 && binary.BigEndian.Uint32(c.ad) == nonce, "header-not-authenticated-as-associated-data")
	vAssert(vEqBytes(c.data, body), "decrypt-input-differs-from-packet-body")
	vAssert(vEqBytes(out, append(vCloneB(prefix), c.out...)), "delivered-bytes-differ-from-authenticated-plaintext")
	return true
}

// verif: unwind=12 cover=replayed bounds="ready session, empty replay window, packets with counters c,d,c where c,d in [16,16+255], all authenticating: the third is never delivered"
func VH_C02_atMostOnce() bool {
	var log []vCipherCall
	s := vDataSession(&log, 1)
	vAssume(s.hsIndex >= 3)
	c := uint32(16) + uint32(vByte())
	d := uint32(16) + uint32(vByte())
	a1, _, _ := s.Deliver(nil, vPacket(c, []byte{1}), vT(5))
	s.Deliver(nil, vPacket(d, []byte{2}), vT(5))
	a3, _, _ := s.Deliver(nil, vPacket(c, []byte{1}), vT(5))
	if a1 {
		vCover("replayed")
	}
	return !(a1 && a3)
}

// verif: unwind=130 cover=far-jump bounds="ready session, packets with counters c, d, c where d jumps the window by any amount >= 128 blocks (symbolic 32-bit d): the replay of c is never delivered"
func VH_C02_atMostOnceFarJump() bool {
	var log []vCipherCall
	s := vDataSession(&log, 1)
	vAssume(s.hsIndex >= 3)
	c := uint32(16) + uint32(vByte()&63)
	d := vU32()
	vAssume(d >= 16+64+128*64 && d < MaxNonce)
	a1, _, _ := s.Deliver(nil, vPacket(c, []byte{1}), vT(5))
	a2, _, _ := s.Deliver(nil, vPacket(d, []byte{2}), vT(5))
	a3, _, _ := s.Deliver(nil, vPacket(c, []byte{1}), vT(5))
	if a1 && a2 {
		vCover("far-jump")
	}
	return !(a1 && a3)
}

// verif: cover=sent,refused bounds="Session.Send from an arbitrary state, plaintext 0..3 bytes: output = BE32(counter) || AEAD(counter, header, plaintext); counter strictly increases; refuses before the handshake completed and at MaxNonce"
func VH_C02_sendFraming() bool {
	var log []vCipherCall
	s := vDataSession(&log, 1)
	pt := vBytes(3)
	n0 := s.nonce
	canSend := s.canSend()
	out, err := s.Send(nil, vCloneB(pt), vT(5))
	if err != nil {
		vCover("refused")
		vAssert(len(log) == 0 && s.nonce == n0 && out == nil, "failed-send-had-effects")
		vAssert(!canSend || n0 >= MaxNonce, "send-refused-although-ready")
		return true
	}
	vCover("sent")
	vAssert(canSend, "encrypted-before-peer-authenticated")
	vAssert(n0 < MaxNonce && s.nonce == n0+1, "counter-not-strictly-increasing-or-over-limit")
	vAssert(len(log) == 1 && !log[0].dec, "not-exactly-one-encrypt")
	c := log[0]
	vAssert(c.n == n0, "encrypt-counter-differs")
	vAssert(len(c.ad) == 4 && binary.BigEndian.Uint32(c.ad) == uint32(n0), "header-not-authenticated")
	vAssert(vEqBytes(c.data, pt), "plaintext-altered")
	vAssert(len(out) == 4+len(pt)+16 && binary.BigEndian.Uint32(out[:4]) == uint32(n0), "wire-header-wrong")
	vAssert(vEqBytes(out[4:], c.out), "wire-body-is-not-the-ciphertext")
	return true
}

// verif: unwind=130 cover=became-sender bounds="inductive step: any session state in which (can send => send counter >= 16), any data packet: afterwards (can send => send counter >= 16), so data counters never collide with the handshake's use of counters 0..3 under the same keys"
func VH_C02_sendCounterDisjointFromHandshake() bool {
	var log []vCipherCall
	s := vDataSession(&log, 1)
	vAssume(!s.canSend() || s.nonce >= noncePostHandshake)
	before := s.canSend()
	nonce := vU32()
	vAssume(nonce >= 4)
	s.Deliver(nil, vPacket(nonce, vBytes(2)), vT(5))
	if !before && s.canSend() {
		vCover("became-sender")
	}
	return !s.canSend() || s.nonce >= noncePostHandshake
}

// verif: replay=none time=concrete unwind=130 cover=promoted,app-data bounds="channel level (same step as C05): application data is returned only from an established session with the channel's accepted key; see VH_C05_channelStep for the state space"
func VH_C02_channelDeliversOnlyFromEstablished() bool { return vChannelStep() }

// verif: replay=none unwind=130 cover=data-accepted,init-done-accepted bounds="handshake level (same step as C03): data only after authentication and the send counter never decreases, so no key/counter pair is ever reused; see VH_C03_handshakeStep for the state space"
func VH_C02_noCounterReuseAcrossHandshake() bool { return vHandshakeStep() }

// verif: replay=none time=concrete unwind=130 cover=sent bounds="Channel.Send on any invariant state with a current session, plaintext 0..2 symbolic bytes: exactly one transport write, equal to BE32(counter) || the AEAD output for exactly that plaintext (no plaintext on the transport), through the current session"
func VH_C02_channelSendOnlyCiphertext() bool {
	e := vChannel()
	c := e.c
	s1 := c.sessions[1].Session
	vAssume(s1 != nil)
	c.lastReceived = time.Now() // the current session is alive (keep-alive expiry is C07's subject)
	pt := vBytes(2)
	n0 := s1.nonce
	err := c.Send(vCtxC{done: make(chan struct{})}, p2p.IOVec{vCloneB(pt)})
	if err != nil {
		return len(e.sent) == 0
	}
	vCover("sent")
	vAssert(len(e.sent) == 1, "not-exactly-one-transport-write")
	var enc *vCipherCall
	for i := range vCipherLog {
		if !vCipherLog[i].dec {
			vAssert(enc == nil, "more-than-one-encryption")
			enc = &vCipherLog[i]
		}
	}
	vAssert(enc != nil && enc.id == s1.cipherOut.(vCipher).id, "not-encrypted-by-the-current-session")
	vAssert(vEqBytes(enc.data, pt) && enc.n == n0, "encrypted-something-else-or-wrong-counter")
	w := e.sent[0]
	vAssert(len(w) == 4+len(pt)+16 && binary.BigEndian.Uint32(w[:4]) == uint32(n0) && vEqBytes(w[4:], enc.out), "transport-bytes-are-not-header-plus-ciphertext")
	return true
}
