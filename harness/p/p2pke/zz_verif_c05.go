package p2pke

// C05: a channel talks only to an accepted key, and to the same key forever.

// verif: replay=none time=concrete unwind=130 cover=promoted,app-data,new-responder,rejected-key,restart-while-established bounds="Channel.Deliver: one step from an arbitrary slot state satisfying the documented invariant (slots 0/1 nil or ready with the channel key, slot 2 nil or pending with ANY key), acceptance predicate (key&m)==v for symbolic m,v, arbitrary packet (counter 0..79, 0..2 body bytes)"
func VH_C05_channelStep() bool {
	e := vChannel()
	c := e.c
	hadKey := !c.remoteKey.IsZero()
	var key0 []byte
	if hadKey {
		key0 = vCloneB(c.remoteKey.Data)
	}
	s0, s1 := c.sessions[0].Session, c.sessions[1].Session
	nonce := vU32()
	vAssume(nonce < 80) // the replay window's sliding loop is covered by C02; keep one block here
	pkt := vPacket(nonce, vBytes(2))
	out, _ := c.Deliver(nil, pkt)
	vCheckJ(e)
	if hadKey {
		vAssert(!c.remoteKey.IsZero() && vEqBytes(c.remoteKey.Data, key0), "channel-key-changed-after-establishment")
	}
	if c.sessions[1].Session != s1 {
		vCover("promoted")
		// a promotion moves the old current session to previous and installs a session with the channel key
		vAssert(c.sessions[0].Session == s1, "promotion-lost-the-current-session")
	} else {
		vAssert(c.sessions[0].Session == s0, "established-sessions-disturbed-without-promotion")
	}
	if out != nil {
		vCover("app-data")
		// the decrypting session must now be an established one (slot 0/1)
		okSrc := false
		for i := range vCipherLog {
			cc := vCipherLog[i]
			if !cc.dec || !cc.ok {
				continue
			}
			for j := 0; j < 2; j++ {
				if s := c.sessions[j].Session; s != nil && s.cipherIn.(vCipher).id == cc.id {
					okSrc = true
				}
			}
		}
		vAssert(okSrc, "app-data-from-a-session-that-is-not-established")
	}
	if s := c.sessions[2].Session; s != nil && s != e.sessions[2] {
		vCover("new-responder")
		vAssert(!s.isInit, "new-pending-session-is-not-a-responder")
		vAssert(len(e.sent) == 1 && IsRespHello(e.sent[0]), "no-resp-hello-sent-for-new-responder-session")
		if hadKey && s1 != nil {
			vCover("restart-while-established")
		}
		if hadKey {
			vAssert(vEqBytes(s.remoteKey.Key.Data, key0), "responder-session-created-for-a-different-key")
		} else {
			vAssert(vAcceptPure(e, s.remoteKey.Key.Data), "responder-session-created-for-a-rejected-key")
		}
	}
	if e.sessions[2] != nil && c.sessions[2].Session == nil && c.sessions[1].Session == s1 {
		vCover("rejected-key")
	}
	return true
}
