package p2pke

// C05: a channel talks only to an accepted key, and to the same key forever.

// verif: replay=none time=concrete unwind=130 cover=promoted,app-data,new-responder,rejected-key,restart-while-established bounds="Channel.Deliver: one step from an arbitrary slot state satisfying the documented invariant (slots 0/1 nil or ready with the channel key, slot 2 nil or pending with ANY key), acceptance predicate (key&m)==v for symbolic m,v, arbitrary packet (counter 0..79, 0..2 body bytes)"
func VH_C05_channelStep() bool { return vChannelStep() }
