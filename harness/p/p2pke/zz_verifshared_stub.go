package p2pke

import (
	"encoding/binary"
	"errors"
	"time"

	"golang.zx2c4.com/wireguard/replay"
)

// vCipher is a recording AEAD stub (an interface seam: noise.Cipher). Decrypt may fail or
// return any plaintext of 0..maxPT bytes; Encrypt returns any bytes of len(plaintext)+16.
type vCipherCall struct {
	dec  bool
	n    uint64
	ad   []byte
	data []byte
	ok   bool
	out  []byte
	id   int
}

type vCipher struct {
	log   *[]vCipherCall
	maxPT int
	id    int
}

var vErrDecrypt = errors.New("harness: authentication failed")

func vCloneB(x []byte) []byte { return append([]byte{}, x...) }

func (c vCipher) Decrypt(out []byte, n uint64, ad, ct []byte) ([]byte, error) {
	ok := vBool()
	pt := vBytes(c.maxPT)
	*c.log = append(*c.log, vCipherCall{dec: true, n: n, ad: vCloneB(ad), data: vCloneB(ct), ok: ok, out: vCloneB(pt), id: c.id})
	if !ok {
		return nil, vErrDecrypt
	}
	return append(out, pt...), nil
}

func (c vCipher) Encrypt(out []byte, n uint64, ad, pt []byte) []byte {
	ct := vBytesN(len(pt) + 16)
	*c.log = append(*c.log, vCipherCall{n: n, ad: vCloneB(ad), data: vCloneB(pt), out: vCloneB(ct), id: c.id})
	return append(out, ct...)
}

func vT(ns int64) time.Time { return time.Unix(0, ns) }

// vHsIndexChoices are the handshake indices a session can be in.
var vHsIndexChoices = [6]uint8{0, 1, 2, 3, 4, 8}

// vDataSession builds a session in an arbitrary data-phase-relevant state.
func vDataSession(log *[]vCipherCall, maxPT int) *Session {
	s := &Session{
		isInit:    vBool(),
		hsIndex:   vHsIndexChoices[vInt(0, 5)],
		expiresAt: vT(1000),
		cipherIn:  vCipher{log: log, maxPT: maxPT, id: 1},
		cipherOut: vCipher{log: log, maxPT: maxPT, id: 2},
		nonce:     vU64(),
		rp:        &replay.Filter{},
	}
	return s
}

func vPacket(nonce uint32, body []byte) []byte {
	p := make([]byte, 4)
	binary.BigEndian.PutUint32(p, nonce)
	return append(p, body...)
}
