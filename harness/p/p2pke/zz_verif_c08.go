package p2pke

// C08 (p2pke part): no packet makes the message parsers, a session or a channel panic.

// verif: replay=none cover=accepted,rejected bounds="every packet of 0..8 bytes: ParseMessage, header accessors, the Is* classifiers and parseInitHello's length arithmetic (protobuf decoding is an engine model)"
func VH_C08_p2pkeParse() bool {
	x := vBytes(8)
	_ = IsInitHello(x)
	_ = IsRespHello(x)
	_ = IsHello(x)
	_ = IsPostHandshake(x)
	m, err := ParseMessage(x)
	if err != nil {
		vCover("rejected")
		return len(x) < 4
	}
	vCover("accepted")
	_ = m.GetNonce()
	_ = m.HeaderBytes()
	_ = m.Body()
	_, _ = m.GetInitHello()
	return true
}

// verif: replay=none unwind=130 cover=stepped bounds="Session.Deliver from every (role, handshake index) with any 32-bit counter and 0..3 body bytes: no panic (Noise/protobuf/asn1 leaves are engine models)"
func VH_C08_p2pkeSessionDeliver() bool {
	s := vHsSession()
	s.Deliver(nil, vPacket(vU32(), vBytes(3)), vT(5))
	s.Handshake(nil)
	vCover("stepped")
	return true
}

// verif: replay=none time=concrete unwind=130 cover=stepped bounds="Channel.Deliver from an arbitrary invariant state with any packet of 0..6 bytes (counter below 80 when well-formed): no panic"
func VH_C08_p2pkeChannelDeliver() bool {
	e := vChannel()
	x := vBytes(6)
	if len(x) >= 4 {
		m, _ := ParseMessage(x)
		vAssume(m.GetNonce() < 80)
	}
	e.c.Deliver(nil, x)
	vCover("stepped")
	return true
}
